//! `nvh replay`: execute model behaviours (scripts) against the real store and write one
//! observation record per step (ndjson) for validation by ApiTrace.tla.
//!
//! The harness decides nothing semantic here: it performs the call the script names, classifies
//! the outcome, reads everything back through the public API and logs it.  The only byte-level
//! predicates it evaluates are "these bytes are exactly the bytes of model value v under key k",
//! "the root equals the reference trie root of what was read back" and "this proof verifies and
//! confirms what was read".

use crate::concr::{Concretisation, Embedding, Key, Rng, StoreCfg, ValueTable};
use crate::refmodel;
use crate::watchdog;
use nomt::hasher::{Blake3Hasher, Sha2Hasher};
use nomt::trie::LeafData;
use nomt::{
    FinishedSession, HashAlgorithm, KeyReadWrite, Nomt, Overlay, Session, SessionParams, WitnessMode,
};
use serde::Deserialize;
use serde_json::{json, Map, Value as J};
use std::collections::{BTreeMap, HashMap};
use std::io::{BufRead, Write};
use std::path::{Path, PathBuf};

#[derive(Deserialize, Clone, Debug)]
pub struct Script {
    pub run: u64,
    #[serde(default)]
    pub cfg: StoreCfg,
    pub conc: Concretisation,
    pub steps: Vec<J>,
    /// keep going after an outcome that differs from the script's expectation
    #[serde(default)]
    pub lenient: bool,
    /// decode the on-disk image at every quiescent point (C16 / C19)
    #[serde(default)]
    pub decode: bool,
    /// with `decode`: write out the page lists (live, free, free list page by page) whatever their size
    #[serde(default)]
    pub decode_full: bool,
}

pub struct World<T: HashAlgorithm> {
    pub dir: PathBuf,
    pub cfg: StoreCfg,
    pub conc: Concretisation,
    pub emb: Embedding,
    pub vt: ValueTable,
    pub nomt: Option<Nomt<T>>,
    pub sess: HashMap<u64, (Session<T>, bool)>,
    pub fins: HashMap<u64, FinishedSession>,
    pub ovls: HashMap<u64, Overlay>,
    pub rng: Rng,
    pub all_keys: Vec<(usize, Key)>,   // (model key index, concrete member key)
    pub probe_keys: Vec<Key>,
    pub root_ids: HashMap<[u8; 32], u64>,
    pub decode: bool,
    /// omit page lists from the decoder observation (crash images: thousands per run)
    pub decode_lite: bool,
    pub decode_full: bool,
}

pub fn classify_err(e: &anyhow::Error) -> String {
    let s = format!("{e:#}");
    if s.contains("Changeset no longer valid") {
        "Stale".into()
    } else if s.contains("Overlay parent not committed") {
        "ParentNotCommitted".into()
    } else if s.contains("poisoned") {
        "Poisoned".into()
    } else if s.contains("not enough logged") {
        "NotEnough".into()
    } else if s.contains("rollback: not enabled") {
        "Disabled".into()
    } else {
        format!("Err:{s}")
    }
}

impl<T: HashAlgorithm> World<T> {
    pub fn new(dir: PathBuf, cfg: StoreCfg, conc: Concretisation) -> anyhow::Result<Self> {
        let emb = conc.embedding();
        let vt = conc.vtable();
        let mut all_keys = Vec::new();
        let mut probe_keys = Vec::new();
        for i in 0..conc.keys.len() {
            for j in 0..conc.f {
                all_keys.push((i, emb.key(i, j)));
            }
            for v in 0..conc.probes {
                probe_keys.push(emb.probe(i, v));
            }
        }
        {
            let mut seen = std::collections::BTreeSet::new();
            for (_, k) in &all_keys {
                anyhow::ensure!(seen.insert(*k), "concretisation produced duplicate keys");
            }
            probe_keys.retain(|p| !seen.contains(p));
        }
        let mut w = World {
            dir,
            cfg: cfg.clone(),
            conc: conc.clone(),
            emb,
            vt,
            nomt: None,
            sess: HashMap::new(),
            fins: HashMap::new(),
            ovls: HashMap::new(),
            rng: Rng::new(conc.seed),
            all_keys,
            probe_keys,
            root_ids: HashMap::new(),
            decode: false,
            decode_lite: false,
            decode_full: false,
        };
        w.open()?;
        Ok(w)
    }

    pub fn open(&mut self) -> anyhow::Result<()> {
        crate::hooks::set_segment_size(self.cfg.segment_size);
        let o = self.cfg.options(&self.dir);
        self.nomt = Some(Nomt::<T>::open(o)?);
        Ok(())
    }

    pub fn close(&mut self) {
        self.sess.clear();
        self.fins.clear();
        self.ovls.clear();
        self.nomt = None;
    }

    fn root_id(&mut self, r: [u8; 32]) -> u64 {
        let n = self.root_ids.len() as u64 + 1;
        *self.root_ids.entry(r).or_insert(n)
    }

    /// Read every concrete key through `read`, fold to the model map, compute the reference root of
    /// exactly what was read.
    pub fn observe_with(
        &self,
        read: &dyn Fn(Key) -> anyhow::Result<Option<Vec<u8>>>,
    ) -> (Map<String, J>, bool, [u8; 32], BTreeMap<Key, Vec<u8>>) {
        let mut per_model: Vec<Option<String>> = vec![None; self.conc.keys.len()];
        let mut content: BTreeMap<Key, Vec<u8>> = BTreeMap::new();
        for (i, k) in &self.all_keys {
            crate::watchdog::tick();
            let got = match read(*k) {
                Ok(g) => g,
                Err(_) => {
                    per_model[*i] = Some("ERR".into());
                    continue;
                }
            };
            let c = self.vt.classify(&got, k, &self.conc.vals);
            if let Some(b) = got {
                content.insert(*k, b);
            }
            if std::env::var("NVH_DEBUG_MIXED").is_ok() {
                eprintln!("MEMBER {} {} -> {}", self.conc.keys[*i], hex::encode(&k[..20]), c);
            }
            per_model[*i] = Some(match per_model[*i].take() {
                None => c,
                Some(prev) if prev == c => c,
                Some(_) => "MIXED".into(),
            });
        }
        let mut probes_ok = true;
        for p in &self.probe_keys {
            match read(*p) {
                Ok(None) => {}
                Ok(Some(b)) => {
                    probes_ok = false;
                    content.insert(*p, b);
                }
                Err(_) => probes_ok = false,
            }
        }
        let mut kv = Map::new();
        for (i, name) in self.conc.keys.iter().enumerate() {
            kv.insert(name.clone(), J::String(per_model[i].clone().unwrap_or("Nil".into())));
        }
        let root = refmodel::root_of_map::<T>(&content);
        (kv, probes_ok, root, content)
    }

    /// The global observation after a step (handle open).
    pub fn observe(&mut self) -> J {
        let Some(nomt) = self.nomt.as_ref() else {
            return json!({"open": false});
        };
        let (kv, probes_ok, ref_root, _) = self.observe_with(&|k| nomt.read(k));
        let root = nomt.root().into_inner();
        let seqn = nomt.sync_seqn();
        let poisoned = nomt.is_poisoned();
        let occupied = nomt.hash_table_utilization().occupied;
        let rid = self.root_id(root);
        let mut st = json!({"open": true, "kv": kv, "probesOk": probes_ok, "rootOk": root == ref_root,
               "rootId": rid, "seqn": seqn, "poisoned": poisoned, "occupied": occupied});
        if self.decode && self.sess.is_empty() && !poisoned {
            st["dec"] = self.decode_obs(occupied as u64);
        }
        st
    }

    /// Decode the directory by the documented formats alone (harness/src/decode.rs) and compare with
    /// what the public API returns: C16 (structure, decoded map, merkle pages vs reference trie) and
    /// C19 (no leaked page, truthful occupancy).  Page lists are included for small stores so that
    /// AllocTrace can check the copy-on-write transition relation between snapshots.
    fn decode_obs(&self, occupied: u64) -> J {
        let mut d = match crate::decode::decode_dir(&self.dir) {
            Ok(d) => d,
            Err(e) => return json!({"ok": false, "problems": [format!("decoder failed: {e:#}")]}),
        };
        crate::decode::check_merkle(&mut d, if self.cfg.hasher == "sha2" { "sha2" } else { "blake3" });
        // decoded map == what the store returns for every key it holds, and nothing else
        let nomt = self.nomt.as_ref().unwrap();
        let mut kv_ok = true;
        for (k, v) in &d.kv {
            match nomt.read(*k) {
                Ok(Some(b)) if b == v.value => {}
                _ => kv_ok = false,
            }
        }
        for (_, k) in &self.all_keys {
            let api = nomt.read(*k).ok().flatten();
            if api.as_ref() != d.kv.get(k).map(|v| &v.value) {
                kv_ok = false;
            }
        }
        let leak = d.problems.iter().any(|p| p.contains("leak"));
        let other: Vec<&String> = d.problems.iter().filter(|p| !p.contains("leak")).collect();
        let alloc = |a: &crate::decode::FileAlloc| {
            if (a.bump <= 400 || self.decode_full) && !self.decode_lite {
                // "flp": the free list page by page (head first) for FreeListTrace
                json!({"bump": a.bump, "free": a.free, "fl": a.fl_pages, "live": a.live,
                       "flp": a.fl_portions.iter().map(|(pn, items)| json!([pn, items])).collect::<Vec<_>>()})
            } else {
                json!({"bump": a.bump, "nfree": a.free.len(), "nfl": a.fl_pages.len(), "nlive": a.live.len()})
            }
        };
        json!({"ok": other.is_empty(), "noLeak": !leak, "kvOk": kv_ok, "occupiedOk": d.buckets.full == occupied,
               "full": d.buckets.full, "tomb": d.buckets.tombstones, "empty": d.buckets.empty,
               "keys": d.kv.len(), "storedPages": d.pages.len(),
               "ln": alloc(&d.ln), "bbn": alloc(&d.bbn),
               "problems": d.problems.iter().take(6).collect::<Vec<_>>()})
    }

    /// Prove one member of every group plus the probes through the session, verify against the
    /// session's previous root, confirm against what the session reads.
    pub fn proofs_ok(&self, s: &Session<T>) -> (bool, u64, String) {
        let prev = s.prev_root().into_inner();
        let mut n = 0u64;
        let mut keys: Vec<Key> = Vec::new();
        for i in 0..self.conc.keys.len() {
            keys.push(self.emb.key(i, 0));
            if self.conc.f > 1 {
                keys.push(self.emb.key(i, self.conc.f - 1));
            }
        }
        keys.extend(self.probe_keys.iter().cloned());
        for k in keys {
            n += 1;
            let read = match s.read(k) {
                Ok(r) => r,
                Err(e) => return (false, n, format!("read failed: {e}")),
            };
            crate::watchdog::tick();
            let proof = match s.prove(k) {
                Ok(p) => p,
                Err(e) => return (false, n, format!("prove failed: {e}")),
            };
            use bitvec::prelude::*;
            let verified = match proof.verify::<T>(k.view_bits::<Msb0>(), prev) {
                Ok(v) => v,
                Err(e) => return (false, n, format!("verify failed: {e:?} key {}", hex::encode(k))),
            };
            match read {
                Some(v) => {
                    let leaf = LeafData {
                        key_path: k,
                        value_hash: T::hash_value(&v),
                    };
                    if !matches!(verified.confirm_value(&leaf), Ok(true)) {
                        return (false, n, format!("confirm_value false for present key {}", hex::encode(k)));
                    }
                    if !matches!(verified.confirm_nonexistence(&k), Ok(false)) {
                        return (false, n, format!("confirm_nonexistence not false for present key {}", hex::encode(k)));
                    }
                }
                None => {
                    if !matches!(verified.confirm_nonexistence(&k), Ok(true)) {
                        return (false, n, format!("confirm_nonexistence false for absent key {}", hex::encode(k)));
                    }
                }
            }
        }
        (true, n, String::new())
    }
}

pub fn jstr(v: &J, k: &str) -> String {
    v.get(k).and_then(|x| x.as_str()).unwrap_or("").to_string()
}
pub fn ju(v: &J, k: &str) -> u64 {
    v.get(k).and_then(|x| x.as_u64()).unwrap_or(0)
}

/// Verify a witness the way examples/witness_verification does.  Returns (ok, detail).
pub fn verify_witness<T: HashAlgorithm>(
    witness: &nomt::Witness,
    prev_root: [u8; 32],
    new_root: [u8; 32],
    expected_reads: &BTreeMap<Key, Option<Vec<u8>>>,
    written: &BTreeMap<Key, Option<Vec<u8>>>,
) -> (bool, String) {
    use nomt::proof;
    let mut updates = Vec::new();
    let mut seen_reads = 0usize;
    let mut seen_writes = 0usize;
    for (i, wp) in witness.path_proofs.iter().enumerate() {
        crate::watchdog::tick();
        let verified = match wp.inner.verify::<T>(wp.path.path(), prev_root) {
            Ok(v) => v,
            Err(e) => return (false, format!("witness path {i} does not verify: {e:?}")),
        };
        for read in witness.operations.reads.iter().filter(|r| r.path_index == i) {
            seen_reads += 1;
            // the witnessed value must be what the session observed
            if let Some(exp) = expected_reads.get(&read.key) {
                let exp_hash = exp.as_ref().map(|v| T::hash_value(v));
                if exp_hash != read.value {
                    return (false, format!("witnessed read of {} differs from the session's read", hex::encode(read.key)));
                }
            }
            match read.value {
                None => {
                    if !matches!(verified.confirm_nonexistence(&read.key), Ok(true)) {
                        return (false, format!("witness cannot confirm nonexistence of {}", hex::encode(read.key)));
                    }
                }
                Some(value_hash) => {
                    let leaf = LeafData { key_path: read.key, value_hash };
                    if !matches!(verified.confirm_value(&leaf), Ok(true)) {
                        return (false, format!("witness cannot confirm value of {}", hex::encode(read.key)));
                    }
                }
            }
        }
        let mut write_ops = Vec::new();
        for write in witness.operations.writes.iter().filter(|r| r.path_index == i) {
            seen_writes += 1;
            match written.get(&write.key) {
                None => return (false, format!("witnessed write of a key never written {}", hex::encode(write.key))),
                Some(v) => {
                    if v.as_ref().map(|v| T::hash_value(v)) != write.value {
                        return (false, format!("witnessed write value differs for {}", hex::encode(write.key)));
                    }
                }
            }
            write_ops.push((write.key, write.value));
        }
        if !write_ops.is_empty() {
            updates.push(proof::PathUpdate { inner: verified, ops: write_ops });
        }
    }
    if seen_writes != written.len() {
        return (false, format!("witness covers {seen_writes} writes, session wrote {}", written.len()));
    }
    for k in expected_reads.keys() {
        if !witness.operations.reads.iter().any(|r| &r.key == k) {
            return (false, format!("read of {} is not witnessed", hex::encode(k)));
        }
    }
    let _ = seen_reads;
    if updates.is_empty() {
        if prev_root != new_root {
            return (false, "no witnessed writes but the root changed".into());
        }
        return (true, String::new());
    }
    // verify_update wants paths ascending; the witness does not promise that order
    updates.sort_by(|a, b| a.inner.path().cmp(b.inner.path()));
    if std::env::var("NVH_DEBUG").is_ok() {
        for (i, wp) in witness.path_proofs.iter().enumerate() {
            eprintln!("path {i}: depth {} sibs {} terminal {:?}", wp.path.depth(), wp.inner.siblings.len(),
                      match &wp.inner.terminal { nomt::proof::PathProofTerminal::Leaf(l) => format!("Leaf({})", hex::encode(l.key_path)), nomt::proof::PathProofTerminal::Terminator(t) => format!("Term(depth {})", t.depth()) });
            eprintln!("    pos bits {:?}", wp.path.path().iter().by_vals().map(|b| if b {'1'} else {'0'}).collect::<String>());
        }
        for r in &witness.operations.reads { eprintln!("read {} -> path {}", hex::encode(r.key), r.path_index); }
        for r in &witness.operations.writes { eprintln!("write {} -> path {} {:?}", hex::encode(r.key), r.path_index, r.value.map(|_| "some")); }
    }
    match proof::verify_update::<T>(prev_root, &updates) {
        Ok(r) if r == new_root => (true, String::new()),
        Ok(_) => (false, "verify_update yields a root different from the session's".into()),
        Err(e) => (false, format!("verify_update failed: {e:?}")),
    }
}

pub fn run_script<T: HashAlgorithm>(sc: &Script, scratch: &Path, out: &mut dyn Write) -> anyhow::Result<()> {
    let dir = scratch.join(format!("run{}", sc.run));
    let _ = std::fs::remove_dir_all(&dir);
    let mut w: World<T> = World::new(dir.clone(), sc.cfg.clone(), sc.conc.clone())?;
    w.decode = sc.decode;
    w.decode_full = sc.decode_full;
    let st0 = w.observe();
    writeln!(
        out,
        "{}",
        json!({"ev":"reset","run":sc.run,"cfg":serde_json::to_value(&sc.cfg)?, "emb": sc.conc.emb, "F": sc.conc.f,
               "maxlog": sc.cfg.max_rollback_log_len, "rollback": sc.cfg.rollback, "st": st0})
    )?;
    for (idx, step) in sc.steps.iter().enumerate() {
        watchdog::progress(&format!("run {} step {} {}", sc.run, idx, step));
        let res = std::panic::catch_unwind(std::panic::AssertUnwindSafe(|| exec_step(&mut w, step)));
        let mut ev = match res {
            Ok(Ok(ev)) => ev,
            Ok(Err(e)) => json!({"ev": jstr(step, "a"), "res": format!("HarnessErr:{e:#}")}),
            Err(p) => {
                let msg = p
                    .downcast_ref::<String>()
                    .cloned()
                    .or_else(|| p.downcast_ref::<&str>().map(|s| s.to_string()))
                    .unwrap_or_default();
                let mut m = step.as_object().cloned().unwrap_or_default();
                m.insert("ev".into(), J::String(jstr(step, "a")));
                m.insert("res".into(), J::String("PANIC".into()));
                m.insert("msg".into(), J::String(msg));
                J::Object(m)
            }
        };
        let panicked = ev.get("res").and_then(|r| r.as_str()) == Some("PANIC");
        if !panicked {
            let st = w.observe();
            ev.as_object_mut().unwrap().insert("st".into(), st);
        }
        ev.as_object_mut().unwrap().insert("run".into(), json!(sc.run));
        ev.as_object_mut().unwrap().insert("i".into(), json!(idx));
        writeln!(out, "{}", ev)?;
        let expected = jstr(step, "res");
        let actual = jstr(&ev, "res");
        if panicked || (!sc.lenient && !expected.is_empty() && expected != actual) {
            break;
        }
    }
    w.close();
    let _ = std::fs::remove_dir_all(&dir);
    Ok(())
}

fn batch_for<T: HashAlgorithm>(
    w: &mut World<T>,
    s: &Session<T>,
    writes: &Map<String, J>,
) -> anyhow::Result<(Vec<(Key, KeyReadWrite)>, BTreeMap<Key, Option<Vec<u8>>>, BTreeMap<Key, Option<Vec<u8>>>)> {
    let mut actuals: BTreeMap<Key, KeyReadWrite> = BTreeMap::new();
    let mut reads: BTreeMap<Key, Option<Vec<u8>>> = BTreeMap::new();
    let mut written: BTreeMap<Key, Option<Vec<u8>>> = BTreeMap::new();
    let all = w.all_keys.clone();
    for (i, k) in all {
        crate::watchdog::tick();
        let name = w.conc.keys[i].clone();
        let mv = writes.get(&name).and_then(|x| x.as_str()).unwrap_or("NoCh");
        if mv == "NoCh" {
            // sometimes read an untouched key inside the batch
            if w.rng.chance(1, 4) {
                let r = s.read(k)?;
                s.warm_up(k);
                reads.insert(k, r.clone());
                actuals.insert(k, KeyReadWrite::Read(r));
            }
            continue;
        }
        let newv = if mv == "Nil" { None } else { Some(w.vt.bytes(mv, &k)) };
        written.insert(k, newv.clone());
        match w.rng.below(3) {
            0 => {
                s.warm_up(k);
                actuals.insert(k, KeyReadWrite::Write(newv));
            }
            1 => {
                s.warm_up(k);
                s.preserve_prior_value(k);
                actuals.insert(k, KeyReadWrite::Write(newv));
            }
            _ => {
                let r = s.read(k)?;
                s.warm_up(k);
                reads.insert(k, r.clone());
                actuals.insert(k, KeyReadWrite::ReadThenWrite(r, newv));
            }
        }
    }
    // sometimes read a probe (absent) key
    if !w.probe_keys.is_empty() && w.rng.chance(1, 3) {
        let p = w.probe_keys[w.rng.below(w.probe_keys.len() as u64) as usize];
        if !actuals.contains_key(&p) {
            let r = s.read(p)?;
            s.warm_up(p);
            reads.insert(p, r.clone());
            actuals.insert(p, KeyReadWrite::Read(r));
        }
    }
    Ok((actuals.into_iter().collect(), reads, written))
}

pub fn exec_step<T: HashAlgorithm>(w: &mut World<T>, step: &J) -> anyhow::Result<J> {
    let a = jstr(step, "a");
    let mut ev = step.as_object().cloned().unwrap_or_default();
    ev.remove("res");
    ev.insert("ev".into(), J::String(a.clone()));
    match a.as_str() {
        "Begin" => {
            let s = ju(step, "s");
            let chain: Vec<u64> = step["chain"].as_array().map(|a| a.iter().filter_map(|x| x.as_u64()).collect()).unwrap_or_default();
            let witness = w.rng.chance(1, 2);
            let params = SessionParams::default().witness_mode(if witness { WitnessMode::read_write() } else { WitnessMode::disabled() });
            let ovs: Vec<&Overlay> = chain.iter().map(|o| w.ovls.get(o).expect("script names a dead overlay")).collect();
            match params.overlay(ovs) {
                Err(e) => {
                    ev.insert("res".into(), J::String(format!("{e:?}")));
                }
                Ok(params) => {
                    let nomt = w.nomt.as_ref().expect("store closed");
                    let sess = nomt.begin_session(params);
                    let (view, probes_ok, ref_root, _) = w.observe_with(&|k| sess.read(k));
                    let prev_ok = sess.prev_root().into_inner() == ref_root;
                    let check_proofs = step.get("proofs").and_then(|x| x.as_bool()).unwrap_or(true);
                    // a panic inside the prover is a failed proof (C05), not a failed begin_session
                    let (pok, np, pmsg) = if check_proofs && prev_ok {
                        std::panic::catch_unwind(std::panic::AssertUnwindSafe(|| w.proofs_ok(&sess)))
                            .unwrap_or((false, 0, "prove panicked".to_string()))
                    } else {
                        (true, 0, String::new())
                    };
                    ev.insert("res".into(), J::String("Ok".into()));
                    ev.insert("view".into(), J::Object(view));
                    ev.insert("viewProbesOk".into(), J::Bool(probes_ok));
                    ev.insert("prevRootOk".into(), J::Bool(prev_ok));
                    ev.insert("proofsOk".into(), J::Bool(pok));
                    ev.insert("proofs".into(), json!(np));
                    if !pmsg.is_empty() {
                        ev.insert("proofMsg".into(), J::String(pmsg));
                    }
                    ev.insert("witness".into(), J::Bool(witness));
                    w.sess.insert(s, (sess, witness));
                }
            }
        }
        "DropSession" => {
            w.sess.remove(&ju(step, "s"));
            ev.insert("res".into(), J::String("Ok".into()));
        }
        "Finish" => {
            let s = ju(step, "s");
            let f = ju(step, "f");
            let (sess, witness) = w.sess.remove(&s).expect("script names a dead session");
            let writes = step["w"].as_object().cloned().unwrap_or_default();
            // the session's view just before finishing (snapshot stability)
            let (view2, _, _, mut content) = w.observe_with(&|k| sess.read(k));
            let prev = sess.prev_root().into_inner();
            let (actuals, reads, written) = batch_for(w, &sess, &writes)?;
            let mut fin = sess.finish(actuals)?;
            for (k, v) in &written {
                match v {
                    Some(b) => {
                        content.insert(*k, b.clone());
                    }
                    None => {
                        content.remove(k);
                    }
                }
            }
            let exp_root = refmodel::root_of_map::<T>(&content);
            let new_root = fin.root().into_inner();
            ev.insert("res".into(), J::String("Ok".into()));
            ev.insert("view".into(), J::Object(view2));
            ev.insert("newRootOk".into(), J::Bool(exp_root == new_root));
            ev.insert("prevRootSame".into(), J::Bool(fin.prev_root().into_inner() == prev));
            if witness {
                match fin.take_witness() {
                    None => {
                        ev.insert("witnessOk".into(), J::Bool(false));
                        ev.insert("witnessMsg".into(), J::String("no witness produced".into()));
                    }
                    Some(wit) => {
                        let (ok, msg) = verify_witness::<T>(&wit, prev, new_root, &reads, &written);
                        ev.insert("witnessOk".into(), J::Bool(ok));
                        if !ok {
                            ev.insert("witnessMsg".into(), J::String(msg));
                        }
                    }
                }
            }
            w.fins.insert(f, fin);
        }
        "DropFinished" => {
            w.fins.remove(&ju(step, "f"));
            ev.insert("res".into(), J::String("Ok".into()));
        }
        "Commit" => {
            let f = ju(step, "f");
            let fin = w.fins.remove(&f).expect("script names a dead changeset");
            let nomt = w.nomt.as_ref().expect("store closed");
            let r = fin.commit(nomt);
            ev.insert("res".into(), J::String(match r {
                Ok(()) => "Ok".into(),
                Err(e) => classify_err(&e),
            }));
        }
        "TryCommit" => {
            let f = ju(step, "f");
            let fin = w.fins.remove(&f).expect("script names a dead changeset");
            let nomt = w.nomt.as_ref().expect("store closed");
            let r = fin.try_commit_nonblocking(nomt);
            ev.insert("res".into(), J::String(match r {
                Ok(None) => "Ok".into(),
                Ok(Some(back)) => {
                    w.fins.insert(f, back);
                    "HandedBack".into()
                }
                Err(e) => classify_err(&e),
            }));
        }
        "IntoOverlay" => {
            let f = ju(step, "f");
            let o = ju(step, "o");
            let fin = w.fins.remove(&f).expect("script names a dead changeset");
            let ov = fin.into_overlay();
            w.ovls.insert(o, ov);
            ev.insert("res".into(), J::String("Ok".into()));
        }
        "DropOverlay" => {
            w.ovls.remove(&ju(step, "o"));
            ev.insert("res".into(), J::String("Ok".into()));
        }
        "OverlayCommit" => {
            let o = ju(step, "o");
            let ov = w.ovls.remove(&o).expect("script names a dead overlay");
            let nomt = w.nomt.as_ref().expect("store closed");
            let r = ov.commit(nomt);
            ev.insert("res".into(), J::String(match r {
                Ok(()) => "Ok".into(),
                Err(e) => classify_err(&e),
            }));
        }
        "OverlayTryCommit" => {
            let o = ju(step, "o");
            let ov = w.ovls.remove(&o).expect("script names a dead overlay");
            let nomt = w.nomt.as_ref().expect("store closed");
            let r = ov.try_commit_nonblocking(nomt);
            ev.insert("res".into(), J::String(match r {
                Ok(None) => "Ok".into(),
                Ok(Some(back)) => {
                    w.ovls.insert(o, back);
                    "HandedBack".into()
                }
                Err(e) => classify_err(&e),
            }));
        }
        "Rollback" => {
            let n = ju(step, "n") as usize;
            let nomt = w.nomt.as_ref().expect("store closed");
            let r = nomt.rollback(n);
            ev.insert("res".into(), J::String(match r {
                Ok(()) => "Ok".into(),
                Err(e) => classify_err(&e),
            }));
        }
        "Close" => {
            w.close();
            ev.insert("res".into(), J::String("Ok".into()));
        }
        "Reopen" => {
            if let Some(c) = step.get("cfg") {
                if !c.is_null() {
                    let mut nc: StoreCfg = serde_json::from_value(c.clone())?;
                    // creation-time parameters cannot change
                    nc.hashtable_buckets = w.cfg.hashtable_buckets;
                    nc.seed = w.cfg.seed;
                    nc.hasher = w.cfg.hasher.clone();
                    w.cfg = nc;
                }
            }
            match w.open() {
                Ok(()) => {
                    ev.insert("res".into(), J::String("Ok".into()));
                }
                Err(e) => {
                    ev.insert("res".into(), J::String(format!("Err:{e:#}")));
                }
            }
        }
        other => anyhow::bail!("unknown step {other}"),
    }
    Ok(J::Object(ev))
}

pub fn main(args: &[String]) -> anyhow::Result<()> {
    // nvh replay <scripts.ndjson> <out.ndjson> <scratch-dir>
    anyhow::ensure!(args.len() >= 3, "usage: nvh replay <scripts> <out> <scratch>");
    let scripts = std::fs::File::open(&args[0])?;
    let mut out = std::io::BufWriter::new(std::fs::File::create(&args[1])?);
    let scratch = PathBuf::from(&args[2]);
    std::fs::create_dir_all(&scratch)?;
    watchdog::start(60, Some(PathBuf::from(&args[1]).with_extension("hang")));
    watchdog::record_panics(std::env::var("NVH_DEBUG").is_err());
    for line in std::io::BufReader::new(scripts).lines() {
        let line = line?;
        if line.trim().is_empty() {
            continue;
        }
        let sc: Script = serde_json::from_str(&line)?;
        // a panic of the store outside a guarded call (drop of a handle, an observation) is an outcome
        let r = std::panic::catch_unwind(std::panic::AssertUnwindSafe(|| match sc.cfg.hasher.as_str() {
            "sha2" => run_script::<Sha2Hasher>(&sc, &scratch, &mut out),
            _ => run_script::<Blake3Hasher>(&sc, &scratch, &mut out),
        }));
        match r {
            Ok(r) => r?,
            Err(_) => {
                writeln!(out, "{}", json!({"ev":"Panic","run":sc.run,"msg":watchdog::last_panic(),"during":watchdog::current()}))?;
            }
        }
        out.flush()?;
    }
    Ok(())
}
