//! `nvh crash`: crash-point / power-loss enumeration (C03, C04) and I/O fault injection (C14).
//!
//! A script is replayed as in `nvh replay`.  For every step listed in `crash_steps` the I/O events of
//! the call are recorded (hook H-io); afterwards the shadow disk materialises the directory image for
//! every event boundary (process crash: page cache survives, in-flight operations applied or not;
//! power loss: durable view plus subsets of unsynced operations), each image is opened with the
//! real `Nomt::open` (its recovery is recorded too and interrupted again: nested crashes) and
//! observed.  One `Image` record per image is written *before* the record of the step itself, so
//! that ApiTrace can judge it against the pre-state and the post-state of that step.
//! The raw event stream of every recorded call is written to a second file for SyncTrace.

use crate::concr::{Concretisation, Rng, StoreCfg};
use crate::rec::{self, Ev, FailSpec};
use crate::replay::{exec_step, jstr, Script, World};
use crate::shadow::{materialise, Shadow, View};
use crate::watchdog;
use nomt::hasher::{Blake3Hasher, Sha2Hasher};
use nomt::{HashAlgorithm, KeyReadWrite, SessionParams};
use serde::Deserialize;
use serde_json::{json, Value as J};
use std::io::{BufRead, Write};
use std::path::{Path, PathBuf};

#[derive(Deserialize, Clone, Debug)]
pub struct CrashScript {
    #[serde(flatten)]
    pub script: Script,
    #[serde(default)]
    pub crash_steps: Vec<usize>,
    /// "crash" | "power" | "both"
    #[serde(default)]
    pub crash_mode: String,
    /// images per event boundary (power loss) / toggles (crash)
    #[serde(default)]
    pub budget: usize,
    /// nested crash points per image (0 = none)
    #[serde(default)]
    pub nested: usize,
    /// take every n-th event boundary only (1 = all)
    #[serde(default)]
    pub stride: usize,
    #[serde(default)]
    pub fault: Option<Fault>,
    /// bucket exhaustion runs: the first sync operation that fails is reported as a Fault record
    #[serde(default)]
    pub exhaust: bool,
    /// record the I/O of every sync operation, not only of the ones in crash_steps
    #[serde(default)]
    pub record_all: bool,
}

#[derive(Deserialize, Clone, Debug)]
pub struct Fault {
    pub step: usize,
    pub k: u64,
    #[serde(default = "eio")]
    pub errno: i32,
    #[serde(default)]
    pub persistent: bool,
}
fn eio() -> i32 {
    5
}

/// Open the image in `dir` and observe it.  Returns (record fields, recovery events).
fn check_image<T: HashAlgorithm>(dir: &Path, cfg: &StoreCfg, conc: &Concretisation, probe: bool, decode: bool) -> (J, Vec<Ev>) {
    rec::set_dir(dir);
    rec::start(None);
    let opened = std::panic::catch_unwind(std::panic::AssertUnwindSafe(|| World::<T>::new(dir.to_path_buf(), cfg.clone(), conc.clone())));
    let (events, _) = rec::stop();
    let mut out = json!({});
    match opened {
        Err(_) => {
            out["res"] = json!("PANIC");
        }
        Ok(Err(e)) => {
            out["res"] = json!(format!("Err:{e:#}"));
        }
        Ok(Ok(mut w)) => {
            out["res"] = json!("Ok");
            // C16: the recovered image must decode to a well-formed structure too
            w.decode = decode;
            w.decode_lite = true;
            out["st"] = w.observe();
            w.decode = false;
            // proofs through a session and one further commit + read-back
            let mut cont_ok = true;
            let mut msg = String::new();
            if probe {
                let r = std::panic::catch_unwind(std::panic::AssertUnwindSafe(|| -> anyhow::Result<()> {
                    let nomt = w.nomt.as_ref().unwrap();
                    let s = nomt.begin_session(SessionParams::default());
                    let (pok, _, pmsg) = w.proofs_ok(&s);
                    anyhow::ensure!(pok, "proofs: {pmsg}");
                    let pk = w.probe_keys.first().cloned().unwrap_or([0x5a; 32]);
                    let val = b"probe-after-recovery".to_vec();
                    let fin = s.finish(vec![(pk, KeyReadWrite::Write(Some(val.clone())))])?;
                    fin.commit(nomt)?;
                    anyhow::ensure!(nomt.read(pk)? == Some(val), "probe value not read back");
                    Ok(())
                }));
                match r {
                    Ok(Ok(())) => {}
                    Ok(Err(e)) => {
                        cont_ok = false;
                        msg = format!("{e:#}");
                    }
                    Err(_) => {
                        cont_ok = false;
                        msg = "panic".into();
                    }
                }
            }
            out["contOk"] = json!(cont_ok);
            if !msg.is_empty() {
                out["contMsg"] = json!(msg);
            }
            w.close();
        }
    }
    (out, events)
}

fn ev_json(e: &Ev) -> J {
    let mut j = json!({"seq": e.seq, "k": e.kind, "ph": e.phase, "f": e.file, "off": e.offset, "len": e.len, "ok": e.ok,
           "th": e.thread, "inj": e.injected});
    // fields for SeglogTrace: segment number, record id of a header append, live range of a meta write
    if let Some(rest) = e.file.strip_prefix("rollback.") {
        if let Some(n) = rest.strip_suffix(".log").and_then(|x| x.parse::<u64>().ok()) {
            j["seg"] = json!(n);
        }
        if e.kind == "append" && e.len == 12 {
            if let Some(d) = &e.data {
                if d.len() >= 12 {
                    j["plen"] = json!(u32::from_le_bytes(d[0..4].try_into().unwrap()));
                    j["rid"] = json!(u64::from_le_bytes(d[4..12].try_into().unwrap()));
                }
            }
        }
    }
    if e.file == "meta" && e.kind == "write" {
        if let Some(d) = &e.data {
            if d.len() >= 64 {
                j["rs"] = json!(u64::from_le_bytes(d[48..56].try_into().unwrap()));
                j["re"] = json!(u64::from_le_bytes(d[56..64].try_into().unwrap()));
            }
        }
    }
    j
}

struct ImgCtx<'a> {
    img_dir: PathBuf,
    cfg: &'a StoreCfg,
    conc: &'a Concretisation,
    step: &'a J,
    run: u64,
    idx: usize,
    n_images: u64,
    rec_streams: Vec<(usize, String, Vec<Ev>)>,
    seen_streams: std::collections::BTreeSet<String>,
    decode: bool,
}

fn emit_image<T: HashAlgorithm>(
    c: &mut ImgCtx,
    out: &mut Vec<J>,
    kind: &str,
    depth: u32,
    k: usize,
    label: &str,
    vol: &View,
    after_return: bool,
) -> Vec<Ev> {
    if materialise(vol, &c.img_dir).is_err() {
        return Vec::new();
    }
    watchdog::progress(&format!("run {} step {} image {kind} k={k} {label}", c.run, c.idx));
    let (mut rec, events) = check_image::<T>(&c.img_dir, c.cfg, c.conc, true, c.decode);
    rec["ev"] = json!("Image");
    rec["op"] = c.step.clone();
    rec["kind"] = json!(kind);
    rec["depth"] = json!(depth);
    rec["k"] = json!(k);
    rec["variant"] = json!(label);
    rec["afterReturn"] = json!(after_return);
    rec["run"] = json!(c.run);
    rec["i"] = json!(c.idx);
    out.push(rec);
    c.n_images += 1;
    if depth == 1 && !events.is_empty() {
        let sig: String = events.iter().map(|e| format!("{}{}{};", &e.kind[..2], &e.phase[..1], e.file.chars().next().unwrap_or('?'))).collect();
        // recovery streams of the images whose in-flight operations are not applied are kept per boundary
        // (SeglogTrace replays prefix + crash + recovery); of the others one per shape (SyncTrace)
        let sig = if label == "none" { format!("{k}:{sig}") } else { sig };
        if c.seen_streams.insert(sig) && c.rec_streams.len() < 400 {
            c.rec_streams.push((k, label.to_string(), events.clone()));
        }
    }
    events
}

fn enumerate_images<T: HashAlgorithm>(
    c: &mut ImgCtx,
    pre: &Shadow,
    events: &[Ev],
    cs: &CrashScript,
    rng: &mut Rng,
    out: &mut Vec<J>,
) {
    let mode = if cs.crash_mode.is_empty() { "crash" } else { cs.crash_mode.as_str() };
    let stride = cs.stride.max(1);
    let budget = cs.budget.max(2);
    let mut sh = pre.clone();
    let n = events.len();
    for k in 0..=n {
        if k > 0 {
            sh.apply(&events[k - 1]);
        }
        if k % stride != 0 && k != n {
            continue;
        }
        let after_return = k == n;
        if mode == "crash" || mode == "both" {
            for (label, vol, dur) in sh.crash_images(budget) {
                let rec_events = emit_image::<T>(c, out, "crash", 1, k, &label, &vol, after_return);
                // nested: interrupt the recovery of this image
                if cs.nested > 0 && !rec_events.is_empty() {
                    let mut nsh = Shadow::from_views(vol.clone(), dur.clone());
                    let m = rec_events.len();
                    let step = (m / cs.nested.max(1)).max(1);
                    for j in 1..=m {
                        nsh.apply(&rec_events[j - 1]);
                        if j % step != 0 && j != m {
                            continue;
                        }
                        for (l2, v2, _) in nsh.crash_images(1).into_iter().take(2) {
                            emit_image::<T>(c, out, "crash", 2, k, &format!("{label}/rec{j}-{l2}"), &v2, after_return);
                        }
                        if mode == "both" {
                            // power loss during the recovery of a crashed process
                            for (l2, v2) in nsh.power_images(rng, 3) {
                                emit_image::<T>(c, out, "power", 2, k, &format!("{label}/rec{j}-{l2}"), &v2, after_return);
                            }
                        }
                    }
                }
            }
        }
        if mode == "power" || mode == "both" {
            for (label, img) in sh.power_images(rng, budget) {
                let rec_events = emit_image::<T>(c, out, "power", 1, k, &label, &img, after_return);
                if cs.nested > 0 && !rec_events.is_empty() && rng.chance(1, 4) {
                    let mut nsh = Shadow::from_views(img.clone(), img.clone());
                    let m = rec_events.len();
                    let step = (m / cs.nested.max(1)).max(1);
                    for j in 1..=m {
                        nsh.apply(&rec_events[j - 1]);
                        if j % step != 0 && j != m {
                            continue;
                        }
                        for (l2, v2) in nsh.power_images(rng, 3) {
                            emit_image::<T>(c, out, "power", 2, k, &format!("{label}/rec{j}-{l2}"), &v2, after_return);
                        }
                    }
                }
            }
        }
    }
}

fn is_sync_op(a: &str) -> bool {
    matches!(a, "Commit" | "TryCommit" | "OverlayCommit" | "OverlayTryCommit" | "Rollback" | "Reopen")
}

pub fn run<T: HashAlgorithm>(cs: &CrashScript, scratch: &Path, out: &mut dyn Write, evout: &mut dyn Write) -> anyhow::Result<()> {
    let sc = &cs.script;
    let dir = scratch.join(format!("run{}", sc.run));
    let img_dir = scratch.join(format!("img{}", sc.run));
    let _ = std::fs::remove_dir_all(&dir);
    rec::install(&dir);
    let mut w: World<T> = World::new(dir.clone(), sc.cfg.clone(), sc.conc.clone())?;
    rec::set_dir(&dir);
    let mut rng = Rng::new(sc.conc.seed ^ 0x5151);
    let st0 = w.observe();
    writeln!(out, "{}", json!({"ev":"reset","run":sc.run,"cfg":serde_json::to_value(&sc.cfg)?, "emb": sc.conc.emb, "F": sc.conc.f,
               "maxlog": sc.cfg.max_rollback_log_len, "rollback": sc.cfg.rollback, "st": st0}))?;
    for (idx, step) in sc.steps.iter().enumerate() {
        watchdog::progress(&format!("crash run {} step {} {}", sc.run, idx, step));
        let a = jstr(step, "a");
        // every sync operation is recorded (SeglogTrace / SyncTrace need gapless histories); crash images are
        // enumerated for the operations named in crash_steps only
        let enumerate = cs.crash_steps.contains(&idx) && is_sync_op(&a);
        let target = is_sync_op(&a) && (enumerate || cs.record_all);
        let fault_here = cs.fault.as_ref().map_or(false, |f| f.step == idx) && is_sync_op(&a);
        let mut pre = None;
        let mut pre_live: Option<(Vec<u32>, Vec<u32>)> = None;
        if target || fault_here {
            if a == "Reopen" {
                // the image before a reopen is the closed directory
                pre = Some(Shadow::from_dir(&dir)?);
            } else {
                pre = Some(Shadow::from_dir(&dir)?);
                if target {
                    // the pages the committed state REFERENCES, by the independent decoder (the store's own free
                    // list is not trusted to say which pages may be written)
                    pre_live = crate::decode::decode_dir(&dir).ok().map(|d| (d.ln.live.clone(), d.bbn.live.clone()));
                }
            }
            rec::set_dir(&dir);
            rec::start(if fault_here {
                cs.fault.as_ref().map(|f| FailSpec { nth: f.k, errno: f.errno, persistent: f.persistent })
            } else {
                None
            });
        }
        let res = std::panic::catch_unwind(std::panic::AssertUnwindSafe(|| exec_step(&mut w, step)));
        let (events, injected) = if target || fault_here { rec::stop() } else { (Vec::new(), false) };
        let mut ev = match res {
            Ok(Ok(ev)) => ev,
            Ok(Err(e)) => json!({"ev": a, "res": format!("HarnessErr:{e:#}")}),
            Err(p) => {
                let msg = p.downcast_ref::<String>().cloned().or_else(|| p.downcast_ref::<&str>().map(|s| s.to_string())).unwrap_or_default();
                let mut m = step.as_object().cloned().unwrap_or_default();
                m.insert("ev".into(), J::String(a.clone()));
                m.insert("res".into(), J::String("PANIC".into()));
                m.insert("msg".into(), J::String(msg));
                J::Object(m)
            }
        };
        let panicked = ev.get("res").and_then(|r| r.as_str()) == Some("PANIC");
        if target && !events.is_empty() {
            // raw I/O events for SyncTrace
            let failable = events.iter().filter(|e| e.phase == "begin" && matches!(e.kind.as_str(), "write"|"append"|"setlen"|"fsync"|"dirsync"|"unlink"|"create"|"submit")).count();
            let mut pre_sum = pre_summary(pre.as_ref().unwrap());
            if let Some((ln, bbn)) = &pre_live {
                pre_sum["ln"]["live"] = json!(ln);
                pre_sum["bbn"]["live"] = json!(bbn);
            }
            writeln!(evout, "{}", json!({"ev":"op","run":sc.run,"i":idx,"op":step,"res":ev.get("res"),"n":events.len(),"failable":failable,
                                         "pre": pre_sum}))?;
            for e in &events {
                let mut j = ev_json(e);
                j["ev"] = json!("io");
                j["run"] = json!(sc.run);
                if let Ok(spec) = std::env::var("NVH_DEBUG_PAGE") {
                    // debugging aid: NVH_DEBUG_PAGE=ln:4408 prints the head of the data written to that page
                    if let Some((f, pn)) = spec.split_once(':') {
                        if e.file == f && e.phase == "begin" && e.offset.to_string() == pn {
                            if let Some(d) = &e.data {
                                eprintln!("DEBUG-PAGE run {} step {} {} {} {}: {}", sc.run, idx, e.kind, f, pn, hex::encode(&d[..d.len().min(48)]));
                                if let Some(old) = pre.as_ref().and_then(|p| p.vol.get(&e.file)).and_then(|f| f.pages.get(&e.offset)) {
                                    let diff: Vec<usize> = (0..d.len().min(old.len())).filter(|i| d[*i] != old[*i]).collect();
                                    eprintln!("   len {} old len {} differing bytes {} first {:?}", d.len(), old.len(), diff.len(), &diff[..diff.len().min(8)]);
                                } else {
                                    eprintln!("   no such page in the pre-image");
                                }
                            }
                        }
                    }
                }
                if e.file == "meta" && e.kind == "write" {
                    if let Some(d) = &e.data {
                        j["metaSeqn"] = json!(u32::from_le_bytes(d[24..28].try_into().unwrap()));
                    }
                }
                if (e.file == "ln" || e.file == "bbn") && e.kind == "submit" && e.phase == "begin" {
                    // does this write put back exactly what the page holds in the image the call started from?
                    if let (Some(d), Some(p)) = (&e.data, pre.as_ref()) {
                        if let Some(old) = p.vol.get(&e.file).and_then(|f| f.pages.get(&e.offset)) {
                            // a page of the pre-image's free list is meaningful up to its last entry only (the two
                            // bytes behind 1022 entries, and everything behind fewer, are never read)
                            let is_fl = pre_sum[&e.file]["flPages"].as_array().map_or(false, |a| a.iter().any(|x| x.as_u64() == Some(e.offset)));
                            let meaningful = if is_fl {
                                (6 + 4 * u16::from_le_bytes([old[4], old[5]]) as usize).min(old.len())
                            } else {
                                old.len()
                            };
                            if d.len() == old.len() && d[..meaningful] == old[..meaningful] {
                                j["same"] = json!(true);
                            } else if std::env::var("NVH_DEBUG_SAME").is_ok() {
                                j["sameDiff"] = json!((0..d.len().min(old.len())).filter(|i| d[*i] != old[*i]).count());
                            }
                        } else if std::env::var("NVH_DEBUG_SAME").is_ok() {
                            j["sameDiff"] = json!("no-page");
                        }
                    }
                }
                writeln!(evout, "{}", j)?;
            }
            writeln!(evout, "{}", json!({"ev":"ret","run":sc.run,"i":idx}))?;
            let mut images = Vec::new();
            let mut c = ImgCtx { img_dir: img_dir.clone(), cfg: &sc.cfg, conc: &sc.conc, step, run: sc.run, idx, n_images: 0,
                                 rec_streams: Vec::new(), seen_streams: Default::default(), decode: sc.decode };
            if enumerate {
                enumerate_images::<T>(&mut c, pre.as_ref().unwrap(), &events, cs, &mut rng, &mut images);
            }
            for im in images {
                writeln!(out, "{}", im)?;
            }
            // the distinct recovery streams seen while opening the images (SyncTrace: recover-* rules)
            for (ik, ilabel, stream) in &c.rec_streams {
                writeln!(evout, "{}", json!({"ev":"op","run":sc.run,"i":idx,"op":{"a":"Reopen"},"res":"Ok","n":stream.len(),"failable":0,
                                             "img": {"k": ik, "label": ilabel},
                                             "pre": {"ln":{"bump":0,"free":[]},"bbn":{"bump":0,"free":[]}}}))?;
                for e in stream {
                    let mut j = ev_json(e);
                    j["ev"] = json!("io");
                    j["run"] = json!(sc.run);
                    writeln!(evout, "{}", j)?;
                }
                writeln!(evout, "{}", json!({"ev":"ret","run":sc.run,"i":idx}))?;
            }
            rec::set_dir(&dir);
        }
        let exhausted = cs.exhaust && is_sync_op(&a) && jstr(&ev, "res").starts_with("Err:");
        if fault_here || exhausted {
            // C14: the outcome of the failed call, the handle's state, and what a reopen shows
            let (fk, ferrno, fpers) = cs.fault.as_ref().map(|f| (f.k, f.errno, f.persistent)).unwrap_or((0, 0, false));
            let injected = injected || exhausted;
            let mut f = json!({"ev":"Fault","run":sc.run,"i":idx,"op":step,"k":fk,
                               "errno":ferrno,"persistent":fpers,"exhausted":exhausted,
                               "injected":injected,"res":ev.get("res").cloned().unwrap_or(J::Null),
                               "isErr": jstr(&ev, "res").starts_with("Err:")});
            if let Some(ie) = events.iter().find(|e| e.injected) {
                f["injFile"] = json!(if ie.file.starts_with("rollback.") { "seg".to_string() } else { ie.file.clone() });
                f["injKind"] = json!(ie.kind.clone());
            }
            if exhausted {
                f["injFile"] = json!("ht-buckets");
                f["injKind"] = json!("exhaustion");
            }
            if let Some(n) = w.nomt.as_ref() {
                f["poisoned"] = json!(n.is_poisoned());
                // a further commit must be refused
                let r = std::panic::catch_unwind(std::panic::AssertUnwindSafe(|| -> String {
                    let s = n.begin_session(SessionParams::default());
                    match s.finish(vec![]) {
                        Err(e) => format!("FinishErr:{e:#}"),
                        Ok(fin) => match fin.commit(n) {
                            Ok(()) => "Ok".into(),
                            Err(e) => crate::replay::classify_err(&e),
                        },
                    }
                }));
                f["next"] = json!(r.unwrap_or_else(|_| "PANIC".into()));
            }
            w.close();
            let (img, _) = check_image::<T>(&dir, &sc.cfg, &sc.conc, true, sc.decode);
            f["reopen"] = img;
            writeln!(out, "{}", f)?;
            break;
        }
        if !panicked {
            let st = w.observe();
            ev.as_object_mut().unwrap().insert("st".into(), st);
        }
        ev.as_object_mut().unwrap().insert("run".into(), json!(sc.run));
        ev.as_object_mut().unwrap().insert("i".into(), json!(idx));
        writeln!(out, "{}", ev)?;
        let expected = jstr(step, "res");
        let actual = jstr(&ev, "res");
        if panicked || (!sc.lenient && !expected.is_empty() && expected != actual) {
            break;
        }
    }
    w.close();
    rec::uninstall();
    let _ = std::fs::remove_dir_all(&dir);
    let _ = std::fs::remove_dir_all(&img_dir);
    Ok(())
}

/// What SyncTrace needs to know about the image before the operation: the copy-on-write files'
/// live pages (everything below the bump that is not on a free list) from meta + free lists.
fn pre_summary(sh: &Shadow) -> J {
    let meta = sh.vol.get("meta").and_then(|m| m.pages.get(&0)).cloned().unwrap_or_else(|| vec![0u8; 4096]);
    let u32at = |o: usize| u32::from_le_bytes(meta[o..o + 4].try_into().unwrap());
    let u64at = |o: usize| u64::from_le_bytes(meta[o..o + 8].try_into().unwrap());
    let mut out = json!({"seqn": u32at(24), "rbStart": u64at(48), "rbEnd": u64at(56)});
    for (name, fl_off, bump_off) in [("ln", 8usize, 12usize), ("bbn", 16, 20)] {
        let bump = u32at(bump_off) as u64;
        let mut free: Vec<u64> = Vec::new();
        let mut fl_pages: Vec<u64> = Vec::new();
        let mut pn = u32at(fl_off) as u64;
        let file = sh.vol.get(name);
        let mut guard = 0;
        while pn != 0 && guard < 100000 {
            guard += 1;
            fl_pages.push(pn);
            let Some(page) = file.and_then(|f| f.pages.get(&pn)) else { break };
            let prev = u32::from_le_bytes(page[0..4].try_into().unwrap()) as u64;
            let cnt = u16::from_le_bytes(page[4..6].try_into().unwrap()) as usize;
            for i in 0..cnt.min(1022) {
                free.push(u32::from_le_bytes(page[6 + i * 4..10 + i * 4].try_into().unwrap()) as u64);
            }
            pn = prev;
        }
        let len_pages = file.map(|f| f.len / 4096).unwrap_or(0);
        out[name] = json!({"bump": bump, "free": free, "flPages": fl_pages, "lenPages": len_pages});
    }
    // the rollback segment files, by the documented format alone: [record id, size in 4 KiB units, whole]
    let mut segs = serde_json::Map::new();
    for (name, img) in &sh.vol {
        let Some(n) = name.strip_prefix("rollback.").and_then(|r| r.strip_suffix(".log")).and_then(|x| x.parse::<u64>().ok()) else { continue };
        let mut recs: Vec<J> = Vec::new();
        let mut pos = 0u64;
        let zero = vec![0u8; 4096];
        while pos < img.len {
            let page = img.pages.get(&(pos / 4096)).unwrap_or(&zero);
            let plen = u32::from_le_bytes(page[0..4].try_into().unwrap()) as u64;
            let rid = u64::from_le_bytes(page[4..12].try_into().unwrap());
            let end = (pos + 12 + plen + 4095) / 4096 * 4096;
            let whole = end <= img.len;
            recs.push(json!([rid, if whole { (end - pos) / 4096 } else { 0 }, whole]));
            if !whole {
                break;
            }
            pos = end;
        }
        segs.insert(n.to_string(), J::Array(recs));
    }
    out["segs"] = J::Object(segs);
    out
}

pub fn main(args: &[String]) -> anyhow::Result<()> {
    // nvh crash <scripts.ndjson> <out.ndjson> <events.ndjson> <scratch>
    anyhow::ensure!(args.len() >= 4, "usage: nvh crash <scripts> <out> <events> <scratch>");
    let scripts = std::fs::File::open(&args[0])?;
    let mut out = std::io::BufWriter::new(std::fs::File::create(&args[1])?);
    let mut evout = std::io::BufWriter::new(std::fs::File::create(&args[2])?);
    let scratch = PathBuf::from(&args[3]);
    std::fs::create_dir_all(&scratch)?;
    let wd = std::env::var("NVH_WATCHDOG").ok().and_then(|s| s.parse().ok()).unwrap_or(60);
    watchdog::start(wd, Some(PathBuf::from(&args[1]).with_extension("hang")));
    watchdog::record_panics(std::env::var("NVH_DEBUG").is_err());
    for line in std::io::BufReader::new(scripts).lines() {
        let line = line?;
        if line.trim().is_empty() {
            continue;
        }
        let cs: CrashScript = serde_json::from_str(&line)?;
        // a panic of the store outside a guarded call (drop of a handle, background observation) is an outcome
        let r = std::panic::catch_unwind(std::panic::AssertUnwindSafe(|| match cs.script.cfg.hasher.as_str() {
            "sha2" => run::<Sha2Hasher>(&cs, &scratch, &mut out, &mut evout),
            _ => run::<Blake3Hasher>(&cs, &scratch, &mut out, &mut evout),
        }));
        match r {
            Ok(r) => r?,
            Err(_) => {
                rec::uninstall();
                writeln!(out, "{}", json!({"ev":"Panic","run":cs.script.run,"msg":watchdog::last_panic(),"during":watchdog::current()}))?;
            }
        }
        out.flush()?;
        evout.flush()?;
    }
    Ok(())
}
