//! Independent decoder of a NOMT database directory.
//!
//! Reads `meta`, `ln`, `bbn`, `ht` and `wal` purely by their on-disk formats (re-implemented here
//! from the format code of /repo, none of nomt's private decoders is used) and checks structural
//! invariants.  `check_merkle` additionally compares the stored merkle pages against a reference
//! binary Merkle-Patricia trie built from the decoded key/value pairs.
//!
//! Nothing in here panics on malformed input: every violated invariant becomes an entry of
//! `Decoded::problems`.
#![allow(dead_code)]

use std::collections::{BTreeMap, BTreeSet, HashMap, HashSet};
use std::fs::File;
use std::os::unix::fs::FileExt;
use std::path::Path;

use nomt::hasher::{Blake3Hasher, NodeHasher, Sha2Hasher, ValueHasher};
use nomt_core::page_id::{ChildPageIndex, PageId, ROOT_PAGE_ID};
use nomt_core::trie::{InternalData, LeafData};

const PAGE: usize = 4096;
const MAX_FL_ITEMS: usize = (PAGE - 6) / 4;
const BRANCH_HEADER: usize = 10;
const MAX_LEAF_VALUE_SIZE: usize = (PAGE - 2) / 3 - 32;
const MAX_OVERFLOW_CELL_PNS: usize = 15;
const MAX_OVERFLOW_VALUE_SIZE: u64 = 1 << 29;
const OVERFLOW_BODY: usize = PAGE - 4;
const NODES_PER_PAGE: usize = 126;
const META_EMPTY: u8 = 0;
const META_TOMBSTONE: u8 = 0x7f;
const META_FULL_MASK: u8 = 0x80;
const MAX_PAGE_DEPTH: usize = 42;
/// At most this many problems per category are spelled out; the rest is summarised.
const PROBLEM_CAP: usize = 40;

pub type Key = [u8; 32];

#[derive(Debug, Clone, Default, serde::Serialize)]
pub struct MetaInfo {
    pub magic: [u8; 4],
    pub version: u32,
    pub ln_freelist_pn: u32,
    pub ln_bump: u32,
    pub bbn_freelist_pn: u32,
    pub bbn_bump: u32,
    pub sync_seqn: u32,
    pub bitbox_num_pages: u32,
    pub bitbox_seed: [u8; 16],
    pub rollback_start_live: u64,
    pub rollback_end_live: u64,
}

#[derive(Debug, Clone, PartialEq, Eq)]
pub struct OverflowRef {
    pub size: u64,
    pub value_hash: [u8; 32],
    /// all pages of the value in chain order (cell pages first, then the spilled ones).
    pub pages: Vec<u32>,
}

#[derive(Debug, Clone, PartialEq, Eq)]
pub struct ValueRef {
    pub inline: Option<Vec<u8>>,
    pub overflow: Option<OverflowRef>,
    /// the full reassembled value.
    pub value: Vec<u8>,
}

#[derive(Debug, Clone, Default)]
pub struct FileAlloc {
    pub bump: u32,
    /// page numbers on the free list (sorted ascending, only the in-range ones).
    pub free: Vec<u32>,
    /// the pages holding the free list itself, head first.
    pub fl_pages: Vec<u32>,
    /// the free list page by page, head first: (page number, the items it holds in stored order)
    pub fl_portions: Vec<(u32, Vec<u32>)>,
    /// pages in use by the current state (sorted ascending).
    pub live: Vec<u32>,
    pub file_pages: u64,
}

#[derive(Debug, Clone)]
pub struct LeafInfo {
    pub pn: u32,
    pub separator: Key,
    pub keys: Vec<Key>,
}

#[derive(Debug, Clone, Default, serde::Serialize)]
pub struct BucketStats {
    pub total: u64,
    pub full: u64,
    pub tombstones: u64,
    pub empty: u64,
    /// meta bytes that are neither empty, tombstone nor full.
    pub invalid: u64,
}

#[derive(Debug, Clone)]
pub struct StoredPage {
    pub bucket: u64,
    pub elided_children: u64,
    pub nodes: Vec<[u8; 32]>,
    /// the page-id path (child indices from the root) if the label could be decoded.
    pub path: Option<Vec<u8>>,
}

#[derive(Debug, Default)]
pub struct Decoded {
    pub meta: MetaInfo,
    pub kv: BTreeMap<Key, ValueRef>,
    pub ln: FileAlloc,
    pub bbn: FileAlloc,
    pub leaves: Vec<LeafInfo>,
    pub buckets: BucketStats,
    pub pages: BTreeMap<Vec<u8>, StoredPage>,
    pub wal_len: u64,
    /// sync sequence number in the WAL header, if the WAL is non-empty and starts with a header.
    pub wal_sync_seqn: Option<u32>,
    pub problems: Vec<String>,
    /// observations that are not violations.
    pub notes: Vec<String>,
    /// ln pages below bump that are neither free, free-list pages nor referenced (leaks).
    pub ln_leaked: Vec<u32>,
}

// ---------------------------------------------------------------------------------------------
// helpers

struct Problems {
    list: Vec<String>,
    counts: HashMap<&'static str, usize>,
}

impl Problems {
    fn new() -> Self {
        Problems { list: Vec::new(), counts: HashMap::new() }
    }
    fn add(&mut self, cat: &'static str, msg: String) {
        let c = self.counts.entry(cat).or_insert(0);
        *c += 1;
        if *c <= PROBLEM_CAP {
            self.list.push(format!("{cat}: {msg}"));
        }
    }
    fn finish(mut self) -> Vec<String> {
        let mut cats: Vec<_> = self.counts.iter().filter(|(_, &n)| n > PROBLEM_CAP).collect();
        cats.sort();
        for (cat, n) in cats {
            self.list.push(format!("{cat}: {} further violations suppressed", n - PROBLEM_CAP));
        }
        self.list
    }
}

struct PagedFile {
    f: File,
    len: u64,
}

impl PagedFile {
    fn open(dir: &Path, name: &str) -> Option<PagedFile> {
        let f = File::open(dir.join(name)).ok()?;
        let len = f.metadata().ok()?.len();
        Some(PagedFile { f, len })
    }
    fn pages(&self) -> u64 {
        self.len / PAGE as u64
    }
    fn read_page(&self, pn: u64) -> Option<Vec<u8>> {
        let start = pn.checked_mul(PAGE as u64)?;
        let end = start.checked_add(PAGE as u64)?;
        if end > self.len {
            return None;
        }
        let mut buf = vec![0u8; PAGE];
        self.f.read_exact_at(&mut buf, start).ok()?;
        Some(buf)
    }
}

fn u16_at(b: &[u8], off: usize) -> Option<u16> {
    Some(u16::from_le_bytes(b.get(off..off.checked_add(2)?)?.try_into().ok()?))
}
fn u32_at(b: &[u8], off: usize) -> Option<u32> {
    Some(u32::from_le_bytes(b.get(off..off.checked_add(4)?)?.try_into().ok()?))
}
fn u64_at(b: &[u8], off: usize) -> Option<u64> {
    Some(u64::from_le_bytes(b.get(off..off.checked_add(8)?)?.try_into().ok()?))
}

fn hx(b: &[u8]) -> String {
    hex::encode(b)
}

fn key_bit(k: &Key, i: usize) -> bool {
    i < 256 && (k[i / 8] >> (7 - i % 8)) & 1 == 1
}

/// copy `len` bits (MSB first) from `src` starting at bit `src_bit` to `dst` starting at `dst_bit`.
/// Returns false if anything is out of range.
fn copy_bits(dst: &mut Key, dst_bit: usize, src: &[u8], src_bit: usize, len: usize) -> bool {
    for i in 0..len {
        let s = src_bit + i;
        let d = dst_bit + i;
        if s / 8 >= src.len() || d >= 256 {
            return false;
        }
        if (src[s / 8] >> (7 - s % 8)) & 1 == 1 {
            dst[d / 8] |= 1 << (7 - d % 8);
        }
    }
    true
}

// ---------------------------------------------------------------------------------------------
// page-id labels

/// 256-bit big-endian integer helpers on [u8; 32].
fn be_is_zero(v: &[u8; 32]) -> bool {
    v.iter().all(|&b| b == 0)
}
fn be_dec(v: &mut [u8; 32]) {
    for i in (0..32).rev() {
        if v[i] == 0 {
            v[i] = 0xff;
        } else {
            v[i] -= 1;
            return;
        }
    }
}
fn be_shr6(v: &mut [u8; 32]) {
    let mut carry = 0u8;
    for i in 0..32 {
        let b = v[i];
        v[i] = (b >> 6) | (carry << 2);
        carry = b & 0x3f;
    }
}

/// The documented disambiguated encoding: start with 0; for every child index: shift left by 6,
/// add the index, add 1 (a bijective base-64 numeral).  Returns the path.
fn decode_documented(bytes: &[u8; 32]) -> Option<Vec<u8>> {
    let mut v = *bytes;
    let mut path = Vec::new();
    while !be_is_zero(&v) {
        if path.len() >= MAX_PAGE_DEPTH {
            return None;
        }
        be_dec(&mut v);
        path.push(v[31] & 0x3f);
        be_shr6(&mut v);
    }
    path.reverse();
    Some(path)
}

fn page_id_of_path(path: &[u8]) -> Option<PageId> {
    let mut id = ROOT_PAGE_ID;
    for &c in path {
        id = id.child_page_id(ChildPageIndex::new(c)?).ok()?;
    }
    Some(id)
}

/// The label nomt itself writes for the page with this path (`PageId::encode`).
fn label_of_path(path: &[u8]) -> Option<[u8; 32]> {
    Some(page_id_of_path(path)?.encode())
}

#[derive(Clone, Copy, PartialEq, Eq, Debug)]
enum LabelScheme {
    Documented,
    /// the documented value multiplied by 64 (the shift happens after the addition).
    Shifted,
}

/// Decode a label to a page path.  A label is accepted iff it round-trips through the
/// library's `PageId::encode`, which is what the lookup path of nomt compares against.
fn decode_label(bytes: &[u8; 32]) -> Option<(Vec<u8>, LabelScheme)> {
    if let Some(p) = decode_documented(bytes) {
        if label_of_path(&p).as_ref() == Some(bytes) {
            return Some((p, LabelScheme::Documented));
        }
    }
    if bytes[31] & 0x3f == 0 {
        let mut v = *bytes;
        be_shr6(&mut v);
        if let Some(p) = decode_documented(&v) {
            if label_of_path(&p).as_ref() == Some(bytes) {
                return Some((p, LabelScheme::Shifted));
            }
        }
    }
    None
}

fn path_str(p: &[u8]) -> String {
    if p.is_empty() {
        "root".to_string()
    } else {
        p.iter().map(|c| c.to_string()).collect::<Vec<_>>().join(".")
    }
}

// ---------------------------------------------------------------------------------------------
// free lists

struct FreeListWalk {
    free: BTreeSet<u32>,
    fl_pages: Vec<u32>,
    fl_portions: Vec<(u32, Vec<u32>)>,
}

fn walk_free_list(
    name: &'static str,
    file: Option<&PagedFile>,
    head: u32,
    bump: u32,
    p: &mut Problems,
) -> FreeListWalk {
    let mut free = BTreeSet::new();
    let mut fl_pages: Vec<u32> = Vec::new();
    let mut fl_set: HashSet<u32> = HashSet::new();
    let mut fl_portions: Vec<(u32, Vec<u32>)> = Vec::new();
    let mut pn = head;
    while pn != 0 {
        if pn >= bump {
            p.add("freelist", format!("{name}: free-list page {pn} is >= bump {bump}"));
            break;
        }
        if !fl_set.insert(pn) {
            p.add("freelist", format!("{name}: free-list chain revisits page {pn} (cycle)"));
            break;
        }
        let Some(page) = file.and_then(|f| f.read_page(pn as u64)) else {
            p.add("freelist", format!("{name}: free-list page {pn} cannot be read (file too short)"));
            fl_pages.push(pn);
            break;
        };
        fl_pages.push(pn);
        let prev = u32_at(&page, 0).unwrap_or(0);
        let mut count = u16_at(&page, 4).unwrap_or(0) as usize;
        if count > MAX_FL_ITEMS {
            p.add(
                "freelist",
                format!("{name}: free-list page {pn} has item_count {count} > {MAX_FL_ITEMS}"),
            );
            count = MAX_FL_ITEMS;
        }
        if count == 0 {
            p.add("freelist", format!("{name}: free-list page {pn} holds no items"));
        }
        fl_portions.push((pn, (0..count).map(|i| u32_at(&page, 6 + 4 * i).unwrap_or(0)).collect()));
        for i in 0..count {
            let item = u32_at(&page, 6 + 4 * i).unwrap_or(0);
            if item == 0 {
                p.add("freelist", format!("{name}: page number 0 is on the free list (page {pn} item {i})"));
            } else if item >= bump {
                p.add(
                    "freelist",
                    format!("{name}: free page {item} (free-list page {pn} item {i}) is >= bump {bump}"),
                );
            } else if !free.insert(item) {
                p.add("freelist", format!("{name}: page {item} is on the free list twice"));
            }
        }
        pn = prev;
    }
    for fl in &fl_pages {
        if free.contains(fl) {
            p.add("freelist", format!("{name}: free-list page {fl} is itself listed as free"));
        }
    }
    FreeListWalk { free, fl_pages, fl_portions }
}

// ---------------------------------------------------------------------------------------------
// branch nodes

struct Branch {
    pn: u32,
    seps: Vec<Key>,
    children: Vec<u32>,
}

fn parse_branch(page: &[u8], pn: u32, p: &mut Problems) -> Option<Branch> {
    let n = u16_at(page, 4)? as usize;
    let prefix_compressed = u16_at(page, 6)? as usize;
    let prefix_len = u16_at(page, 8)? as usize;
    if n == 0 {
        p.add("branch", format!("bbn {pn}: branch node with n = 0"));
        return None;
    }
    let bits_start = BRANCH_HEADER + 2 * n;
    let ptr_bytes = 4 * n;
    if bits_start + ptr_bytes > PAGE {
        p.add("branch", format!("bbn {pn}: n = {n} does not fit a page"));
        return None;
    }
    let ptr_start = PAGE - ptr_bytes;
    if prefix_compressed > n {
        p.add("branch", format!("bbn {pn}: prefix_compressed {prefix_compressed} > n {n}"));
        return None;
    }
    if prefix_len > 256 {
        p.add("branch", format!("bbn {pn}: prefix_len {prefix_len} > 256"));
        return None;
    }
    let region = &page[bits_start..ptr_start];
    let mut cells = Vec::with_capacity(n);
    for i in 0..n {
        cells.push(u16_at(page, BRANCH_HEADER + 2 * i)? as usize);
    }
    for i in 1..n {
        if cells[i] < cells[i - 1] {
            p.add("branch", format!("bbn {pn}: separator end offsets decrease at index {i}"));
            return None;
        }
    }
    if prefix_len + cells[n - 1] > region.len() * 8 {
        p.add(
            "branch",
            format!("bbn {pn}: prefix and separators ({} bits) overlap the node pointers", prefix_len + cells[n - 1]),
        );
        return None;
    }
    let mut seps = Vec::with_capacity(n);
    for i in 0..n {
        let start = if i == 0 { 0 } else { cells[i - 1] };
        let len = cells[i] - start;
        let mut key = [0u8; 32];
        let ok = if i < prefix_compressed {
            prefix_len + len <= 256
                && copy_bits(&mut key, 0, region, 0, prefix_len)
                && copy_bits(&mut key, prefix_len, region, prefix_len + start, len)
        } else {
            len <= 256 && copy_bits(&mut key, 0, region, prefix_len + start, len)
        };
        if !ok {
            p.add("branch", format!("bbn {pn}: separator {i} is longer than 256 bits or out of range"));
            return None;
        }
        seps.push(key);
    }
    for i in 1..n {
        if seps[i] <= seps[i - 1] {
            p.add(
                "branch",
                format!("bbn {pn}: separators not strictly increasing at index {i} ({} then {})", hx(&seps[i - 1]), hx(&seps[i])),
            );
        }
    }
    let mut children = Vec::with_capacity(n);
    for i in 0..n {
        children.push(u32_at(page, ptr_start + 4 * i)?);
    }
    Some(Branch { pn, seps, children })
}

// ---------------------------------------------------------------------------------------------
// leaves and overflow values

struct RawCell {
    key: Key,
    overflow: bool,
    cell: Vec<u8>,
}

fn parse_leaf(page: &[u8], pn: u32, p: &mut Problems) -> Option<Vec<RawCell>> {
    let n = u16_at(page, 0)? as usize;
    let ptr_end = 2 + 34 * n;
    if ptr_end > PAGE {
        p.add("leaf", format!("ln {pn}: n = {n} cell pointers do not fit a page"));
        return None;
    }
    let mut offs = Vec::with_capacity(n + 1);
    let mut flags = Vec::with_capacity(n);
    for i in 0..n {
        let v = u16_at(page, 2 + 34 * i + 32)?;
        offs.push((v & 0x7fff) as usize);
        flags.push(v & 0x8000 != 0);
    }
    offs.push(PAGE);
    if n > 0 && offs[0] < ptr_end {
        p.add("leaf", format!("ln {pn}: first cell offset {} overlaps the cell pointers (end {ptr_end})", offs[0]));
        return None;
    }
    for i in 0..n {
        if offs[i] > offs[i + 1] || offs[i + 1] > PAGE {
            p.add("leaf", format!("ln {pn}: cell offsets not monotonic / out of range at index {i}"));
            return None;
        }
    }
    let mut out = Vec::with_capacity(n);
    for i in 0..n {
        let mut key = [0u8; 32];
        key.copy_from_slice(&page[2 + 34 * i..2 + 34 * i + 32]);
        out.push(RawCell { key, overflow: flags[i], cell: page[offs[i]..offs[i + 1]].to_vec() });
    }
    Some(out)
}

/// The number of pages nomt expects for an overflow value of this size (`total_needed_pages`).
fn total_needed_pages(size: usize) -> usize {
    let raw = (size + OVERFLOW_BODY - 1) / OVERFLOW_BODY;
    if raw <= MAX_OVERFLOW_CELL_PNS {
        return raw;
    }
    let bytes_left = raw * OVERFLOW_BODY - size;
    if raw <= MAX_OVERFLOW_CELL_PNS + bytes_left / 4 {
        return raw;
    }
    let n = size + (raw - MAX_OVERFLOW_CELL_PNS) * 4 - raw * OVERFLOW_BODY;
    raw + (n + OVERFLOW_BODY - 3) / (OVERFLOW_BODY - 4)
}

struct LnCtx<'a> {
    file: Option<&'a PagedFile>,
    bump: u32,
    free: &'a BTreeSet<u32>,
    fl: &'a HashSet<u32>,
}

impl<'a> LnCtx<'a> {
    /// Why a page number cannot be a live page, if so.
    fn invalid_reason(&self, pn: u32) -> Option<String> {
        if pn == 0 {
            Some("is page 0".into())
        } else if pn >= self.bump {
            Some(format!("is >= ln_bump {}", self.bump))
        } else if self.free.contains(&pn) {
            Some("is on the free list".into())
        } else if self.fl.contains(&pn) {
            Some("is a free-list page".into())
        } else {
            None
        }
    }
}

/// Decode an overflow cell and reassemble its value.  Returns the reference and the bytes
/// gathered (possibly incomplete when a problem was found).
fn read_overflow(key: &Key, leaf_pn: u32, cell: &[u8], ctx: &LnCtx, p: &mut Problems) -> Option<(OverflowRef, Vec<u8>)> {
    let k = hx(&key[..8]);
    if cell.len() < 44 || cell.len() % 4 != 0 || (cell.len() - 40) / 4 > MAX_OVERFLOW_CELL_PNS {
        p.add("overflow", format!("ln {leaf_pn} key {k}..: overflow cell has illegal length {}", cell.len()));
        return None;
    }
    let size = u64_at(cell, 0)?;
    let mut value_hash = [0u8; 32];
    value_hash.copy_from_slice(&cell[8..40]);
    if size > MAX_OVERFLOW_VALUE_SIZE {
        p.add("overflow", format!("ln {leaf_pn} key {k}..: overflow value size {size} exceeds the maximum"));
        return None;
    }
    if size as usize <= MAX_LEAF_VALUE_SIZE {
        p.add("overflow", format!("ln {leaf_pn} key {k}..: overflow cell for a value of only {size} bytes"));
    }
    let mut pages: Vec<u32> = cell[40..].chunks(4).filter_map(|c| u32_at(c, 0)).collect();
    let expected_pages = total_needed_pages(size as usize);
    if pages.len() != expected_pages.min(MAX_OVERFLOW_CELL_PNS) {
        p.add(
            "overflow",
            format!("ln {leaf_pn} key {k}..: overflow cell lists {} pages, expected {}", pages.len(), expected_pages.min(MAX_OVERFLOW_CELL_PNS)),
        );
    }
    let mut value: Vec<u8> = Vec::new();
    let mut seen: HashSet<u32> = HashSet::new();
    let mut bytes_seen = false;
    let page_cap = expected_pages + 16;
    let mut i = 0;
    let mut complete = true;
    while i < pages.len() {
        let pn = pages[i];
        if let Some(r) = ctx.invalid_reason(pn) {
            p.add("overflow", format!("ln {leaf_pn} key {k}..: overflow page {pn} (index {i}) {r}"));
            complete = false;
            break;
        }
        if !seen.insert(pn) {
            p.add("overflow", format!("ln {leaf_pn} key {k}..: overflow page {pn} appears twice in one value"));
            complete = false;
            break;
        }
        let Some(page) = ctx.file.and_then(|f| f.read_page(pn as u64)) else {
            p.add("overflow", format!("ln {leaf_pn} key {k}..: overflow page {pn} cannot be read"));
            complete = false;
            break;
        };
        let n_p = u16_at(&page, 0).unwrap_or(0) as usize;
        let n_b = u16_at(&page, 2).unwrap_or(0) as usize;
        if 4 + 4 * n_p + n_b > PAGE {
            p.add("overflow", format!("ln {leaf_pn} key {k}..: overflow page {pn} header ({n_p} pointers, {n_b} bytes) exceeds the page"));
            complete = false;
            break;
        }
        if bytes_seen && n_p > 0 {
            p.add("overflow", format!("ln {leaf_pn} key {k}..: overflow page {pn} carries page numbers after value bytes began (would leak on delete)"));
        }
        if n_b > 0 {
            bytes_seen = true;
        }
        for j in 0..n_p {
            pages.push(u32_at(&page, 4 + 4 * j).unwrap_or(0));
        }
        value.extend_from_slice(&page[4 + 4 * n_p..4 + 4 * n_p + n_b]);
        if pages.len() > page_cap {
            p.add("overflow", format!("ln {leaf_pn} key {k}..: overflow chain has more than {page_cap} pages for a {size}-byte value"));
            complete = false;
            break;
        }
        i += 1;
    }
    if complete {
        if value.len() as u64 != size {
            p.add("overflow", format!("ln {leaf_pn} key {k}..: reassembled value has {} bytes, cell records {size}", value.len()));
        }
        if pages.len() != expected_pages {
            p.add("overflow", format!("ln {leaf_pn} key {k}..: value uses {} pages, nomt expects {expected_pages} for {size} bytes", pages.len()));
        }
    }
    Some((OverflowRef { size, value_hash, pages }, value))
}

// ---------------------------------------------------------------------------------------------
// decode_dir

pub fn decode_dir(dir: &Path) -> anyhow::Result<Decoded> {
    anyhow::ensure!(dir.is_dir(), "{} is not a directory", dir.display());
    let mut d = Decoded::default();
    let mut p = Problems::new();
    decode_inner(dir, &mut d, &mut p);
    d.problems = p.finish();
    Ok(d)
}

fn decode_inner(dir: &Path, d: &mut Decoded, p: &mut Problems) {
    // ---- meta
    let meta_bytes = match std::fs::read(dir.join("meta")) {
        Ok(b) => b,
        Err(e) => {
            p.add("meta", format!("cannot read meta file: {e}"));
            return;
        }
    };
    if meta_bytes.len() < 64 {
        p.add("meta", format!("meta file has only {} bytes", meta_bytes.len()));
        return;
    }
    if meta_bytes.len() < PAGE {
        p.add("meta", format!("meta file has {} bytes, less than one page", meta_bytes.len()));
    }
    let b = &meta_bytes;
    let m = MetaInfo {
        magic: [b[0], b[1], b[2], b[3]],
        version: u32_at(b, 4).unwrap_or(0),
        ln_freelist_pn: u32_at(b, 8).unwrap_or(0),
        ln_bump: u32_at(b, 12).unwrap_or(0),
        bbn_freelist_pn: u32_at(b, 16).unwrap_or(0),
        bbn_bump: u32_at(b, 20).unwrap_or(0),
        sync_seqn: u32_at(b, 24).unwrap_or(0),
        bitbox_num_pages: u32_at(b, 28).unwrap_or(0),
        bitbox_seed: b[32..48].try_into().unwrap_or([0; 16]),
        rollback_start_live: u64_at(b, 48).unwrap_or(0),
        rollback_end_live: u64_at(b, 56).unwrap_or(0),
    };
    if &m.magic != b"NOMT" {
        p.add("meta", format!("bad magic {:?}", m.magic));
    }
    if m.version != 1 {
        p.add("meta", format!("unsupported version {}", m.version));
    }
    if m.ln_bump < 1 {
        p.add("meta", "ln_bump is 0".into());
    }
    if m.bbn_bump < 1 {
        p.add("meta", "bbn_bump is 0".into());
    }
    if (m.rollback_start_live == 0) != (m.rollback_end_live == 0) {
        p.add("meta", format!("rollback live range half-nil: {}..{}", m.rollback_start_live, m.rollback_end_live));
    }
    d.meta = m.clone();

    // ---- allocators
    let ln_file = PagedFile::open(dir, "ln");
    let bbn_file = PagedFile::open(dir, "bbn");
    if ln_file.is_none() {
        p.add("ln", "cannot open file ln".into());
    }
    if bbn_file.is_none() {
        p.add("bbn", "cannot open file bbn".into());
    }
    for (name, f, bump) in [("ln", &ln_file, m.ln_bump), ("bbn", &bbn_file, m.bbn_bump)] {
        if let Some(f) = f {
            if f.len % PAGE as u64 != 0 {
                p.add("alloc", format!("{name}: file length {} is not a multiple of the page size", f.len));
            }
            if bump as u64 > f.pages() {
                p.add("alloc", format!("{name}: bump {bump} exceeds the file ({} pages)", f.pages()));
            }
        }
    }
    let ln_fl = walk_free_list("ln", ln_file.as_ref(), m.ln_freelist_pn, m.ln_bump, p);
    let bbn_fl = walk_free_list("bbn", bbn_file.as_ref(), m.bbn_freelist_pn, m.bbn_bump, p);
    let ln_fl_set: HashSet<u32> = ln_fl.fl_pages.iter().copied().collect();
    let bbn_fl_set: HashSet<u32> = bbn_fl.fl_pages.iter().copied().collect();

    // ---- bbn scan (as reconstruction does: pages below bump, skipping tracked and all-zero pages)
    let mut branches: Vec<Branch> = Vec::new();
    let mut bbn_live: Vec<u32> = Vec::new();
    if let Some(f) = bbn_file.as_ref() {
        let scan = (m.bbn_bump as u64).min(f.pages());
        for pn in 0..scan {
            let pn32 = pn as u32;
            let Some(page) = f.read_page(pn) else {
                p.add("bbn", format!("bbn {pn}: page cannot be read"));
                continue;
            };
            let zero = page.iter().all(|&x| x == 0);
            if pn == 0 {
                if !zero {
                    p.add("bbn", "bbn 0: reserved page 0 is not all-zero (reconstruction would index it)".into());
                }
                continue;
            }
            let is_free = bbn_fl.free.contains(&pn32);
            let is_fl = bbn_fl_set.contains(&pn32);
            if is_free && is_fl {
                p.add("bbn", format!("bbn {pn}: page is both free and a free-list page"));
            }
            if is_free || is_fl || zero {
                continue;
            }
            let stored_pn = u32_at(&page, 0).unwrap_or(0);
            if stored_pn != pn32 {
                p.add("bbn", format!("bbn {pn}: leaked or garbage page (not free, not zero, bbn_pn field = {stored_pn})"));
                continue;
            }
            bbn_live.push(pn32);
            if let Some(br) = parse_branch(&page, pn32, p) {
                branches.push(br);
            }
        }
    }
    d.bbn = FileAlloc {
        bump: m.bbn_bump,
        free: bbn_fl.free.iter().copied().collect(),
        fl_pages: bbn_fl.fl_pages.clone(),
        fl_portions: bbn_fl.fl_portions.clone(),
        live: bbn_live,
        file_pages: bbn_file.as_ref().map(|f| f.pages()).unwrap_or(0),
    };

    // ---- global separator order
    branches.sort_by(|a, b| a.seps[0].cmp(&b.seps[0]).then(a.pn.cmp(&b.pn)));
    for w in branches.windows(2) {
        let (a, b) = (&w[0], &w[1]);
        let last = a.seps[a.seps.len() - 1];
        if b.seps[0] <= last {
            p.add(
                "branch",
                format!("bbn {} and bbn {}: separator ranges overlap ({} >= {})", a.pn, b.pn, hx(&last), hx(&b.seps[0])),
            );
        }
    }
    let mut leaf_refs: Vec<(Key, u32, u32)> = Vec::new(); // separator, leaf pn, branch pn
    for br in &branches {
        for (s, c) in br.seps.iter().zip(br.children.iter()) {
            leaf_refs.push((*s, *c, br.pn));
        }
    }
    if let Some(first) = leaf_refs.first() {
        if first.0 != [0u8; 32] {
            p.add("branch", format!("the first separator overall is {} instead of the all-zero key", hx(&first.0)));
        }
    }

    // ---- leaves
    let ctx = LnCtx { file: ln_file.as_ref(), bump: m.ln_bump, free: &ln_fl.free, fl: &ln_fl_set };
    // who claims an ln page: description strings
    let mut claims: HashMap<u32, Vec<String>> = HashMap::new();
    let mut ln_live: BTreeSet<u32> = BTreeSet::new();
    for (i, (sep, leaf_pn, br_pn)) in leaf_refs.iter().enumerate() {
        let upper = leaf_refs.get(i + 1).map(|x| x.0);
        if let Some(r) = ctx.invalid_reason(*leaf_pn) {
            p.add("leafref", format!("bbn {br_pn}: leaf page {leaf_pn} (separator {}) {r}", hx(&sep[..8])));
            d.leaves.push(LeafInfo { pn: *leaf_pn, separator: *sep, keys: vec![] });
            continue;
        }
        let c = claims.entry(*leaf_pn).or_default();
        c.push(format!("leaf of bbn {br_pn}"));
        if c.len() > 1 {
            // reported in the partition pass; do not decode the leaf twice.
            d.leaves.push(LeafInfo { pn: *leaf_pn, separator: *sep, keys: vec![] });
            continue;
        }
        ln_live.insert(*leaf_pn);
        let Some(page) = ctx.file.and_then(|f| f.read_page(*leaf_pn as u64)) else {
            p.add("leaf", format!("ln {leaf_pn}: leaf page cannot be read"));
            d.leaves.push(LeafInfo { pn: *leaf_pn, separator: *sep, keys: vec![] });
            continue;
        };
        let cells = parse_leaf(&page, *leaf_pn, p).unwrap_or_default();
        let mut keys = Vec::with_capacity(cells.len());
        for (j, c) in cells.iter().enumerate() {
            if j > 0 && c.key <= cells[j - 1].key {
                p.add("leaf", format!("ln {leaf_pn}: keys not strictly increasing at index {j}"));
            }
            if c.key < *sep || upper.map_or(false, |u| c.key >= u) {
                p.add(
                    "leaf",
                    format!("ln {leaf_pn}: key {} outside its separator range [{}, {})", hx(&c.key), hx(sep), upper.map(|u| hx(&u)).unwrap_or_else(|| "inf".into())),
                );
            }
            keys.push(c.key);
            let vr = if c.overflow {
                match read_overflow(&c.key, *leaf_pn, &c.cell, &ctx, p) {
                    Some((oref, value)) => {
                        for pg in &oref.pages {
                            if ctx.invalid_reason(*pg).is_none() {
                                claims.entry(*pg).or_default().push(format!("overflow page of key {}..", hx(&c.key[..8])));
                                ln_live.insert(*pg);
                            }
                        }
                        ValueRef { inline: None, overflow: Some(oref), value }
                    }
                    None => ValueRef { inline: None, overflow: None, value: vec![] },
                }
            } else {
                if c.cell.len() > MAX_LEAF_VALUE_SIZE {
                    p.add("leaf", format!("ln {leaf_pn}: inline value of {} bytes exceeds MAX_LEAF_VALUE_SIZE", c.cell.len()));
                }
                ValueRef { inline: Some(c.cell.clone()), overflow: None, value: c.cell.clone() }
            };
            if d.kv.insert(c.key, vr).is_some() {
                p.add("leaf", format!("key {} appears in more than one leaf", hx(&c.key)));
            }
        }
        d.leaves.push(LeafInfo { pn: *leaf_pn, separator: *sep, keys });
    }

    // ---- ln partition
    if let Some(f) = ln_file.as_ref() {
        let scan = (m.ln_bump as u64).min(f.pages());
        for pn in 1..scan {
            let pn32 = pn as u32;
            let mut classes: Vec<String> = Vec::new();
            if ln_fl.free.contains(&pn32) {
                classes.push("free".into());
            }
            if ln_fl_set.contains(&pn32) {
                classes.push("free-list page".into());
            }
            if let Some(c) = claims.get(&pn32) {
                classes.extend(c.iter().cloned());
            }
            if classes.is_empty() {
                d.ln_leaked.push(pn32);
                p.add("ln-leak", format!("ln {pn}: leaked page (below bump, not free, not referenced)"));
            } else if classes.len() > 1 {
                p.add("ln", format!("ln {pn}: page used more than once: {}", classes.join(", ")));
            }
        }
    }
    d.ln = FileAlloc {
        bump: m.ln_bump,
        free: ln_fl.free.iter().copied().collect(),
        fl_pages: ln_fl.fl_pages.clone(),
        fl_portions: ln_fl.fl_portions.clone(),
        live: ln_live.into_iter().collect(),
        file_pages: ln_file.as_ref().map(|f| f.pages()).unwrap_or(0),
    };

    decode_ht(dir, d, p);
    decode_wal(dir, d, p);
}

// ---------------------------------------------------------------------------------------------
// hash table and WAL

fn hash_label(label: &[u8; 32], seed: &[u8; 16]) -> u64 {
    let seed_u64 = u64::from_be_bytes(seed[..8].try_into().unwrap_or([0; 8]));
    twox_hash::xxhash3_64::Hasher::oneshot_with_seed(seed_u64, label)
}

fn decode_ht(dir: &Path, d: &mut Decoded, p: &mut Problems) {
    let n = d.meta.bitbox_num_pages as u64;
    d.buckets.total = n;
    let Some(f) = PagedFile::open(dir, "ht") else {
        p.add("ht", "cannot open file ht".into());
        return;
    };
    if n == 0 {
        p.add("ht", "bitbox_num_pages is 0".into());
        return;
    }
    let meta_pages = (n + 4095) / PAGE as u64;
    let expected_len = (meta_pages + n) * PAGE as u64;
    if f.len != expected_len {
        p.add("ht", format!("ht file has {} bytes, expected {expected_len} for {n} buckets", f.len));
    }
    let mut meta: Vec<u8> = Vec::with_capacity((meta_pages.min(f.pages()) as usize).saturating_mul(PAGE));
    for pn in 0..meta_pages {
        match f.read_page(pn) {
            Some(pg) => meta.extend_from_slice(&pg),
            None => {
                p.add("ht", format!("meta-byte page {pn} cannot be read (file too short)"));
                break;
            }
        }
    }
    // buckets whose meta byte cannot be read are not scanned (they count as empty).
    let scan_n = n.min(meta.len() as u64);
    if scan_n < n {
        d.buckets.empty += n - scan_n;
    }
    for (i, &b) in meta.iter().enumerate().skip(n as usize) {
        if b != 0 {
            p.add("ht", format!("meta byte {i} beyond the last bucket is {b:#04x}"));
        }
    }
    let seed = d.meta.bitbox_seed;
    let mut by_label: HashMap<[u8; 32], u64> = HashMap::new();
    let mut full: Vec<(u64, [u8; 32], u64)> = Vec::new(); // bucket, label, hash
    let mut schemes: BTreeSet<&'static str> = BTreeSet::new();
    for bkt in 0..scan_n {
        let mb = meta[bkt as usize];
        if mb == META_EMPTY {
            d.buckets.empty += 1;
            continue;
        }
        if mb == META_TOMBSTONE {
            d.buckets.tombstones += 1;
            continue;
        }
        if mb & META_FULL_MASK == 0 {
            d.buckets.invalid += 1;
            p.add("ht", format!("bucket {bkt}: meta byte {mb:#04x} is neither empty, tombstone nor full"));
            continue;
        }
        d.buckets.full += 1;
        let Some(page) = f.read_page(meta_pages + bkt) else {
            p.add("ht", format!("bucket {bkt}: data page cannot be read (file too short)"));
            continue;
        };
        let mut label = [0u8; 32];
        label.copy_from_slice(&page[PAGE - 32..]);
        let elided = u64_at(&page, PAGE - 40).unwrap_or(0);
        let nodes: Vec<[u8; 32]> = (0..NODES_PER_PAGE)
            .map(|i| {
                let mut nd = [0u8; 32];
                nd.copy_from_slice(&page[32 * i..32 * i + 32]);
                nd
            })
            .collect();
        let path = match decode_label(&label) {
            Some((path, _)) if path.is_empty() => Some(path), // the root label is 0 in both schemes
            Some((path, scheme)) => {
                schemes.insert(match scheme {
                    LabelScheme::Documented => "documented",
                    LabelScheme::Shifted => "shifted",
                });
                Some(path)
            }
            None => {
                p.add("ht", format!("bucket {bkt}: label {} is not the encoding of any page id", hx(&label)));
                None
            }
        };
        let h = hash_label(&label, &seed);
        let tag = ((h >> 57) as u8) | META_FULL_MASK;
        if mb != tag {
            p.add(
                "ht",
                format!("bucket {bkt}: meta byte {mb:#04x} does not match the tag {tag:#04x} of the stored page {}", path.as_deref().map(path_str).unwrap_or_else(|| hx(&label))),
            );
        }
        if let Some(prev) = by_label.insert(label, bkt) {
            p.add(
                "ht",
                format!("page {} is stored in two full buckets: {prev} and {bkt}", path.as_deref().map(path_str).unwrap_or_else(|| hx(&label))),
            );
        } else {
            full.push((bkt, label, h));
            d.pages.insert(label.to_vec(), StoredPage { bucket: bkt, elided_children: elided, nodes, path });
        }
    }
    // probe reachability: the lookup of the page id must arrive at the bucket before an empty one.
    for (bkt, label, h) in &full {
        let mut cur = h % n;
        let mut step = 0u64;
        let mut reached = false;
        let mut hit_empty = None;
        // the triangular sequence is periodic with period <= 2n.
        for _ in 0..(2 * n + 2) {
            cur = (cur + step) % n;
            step += 1;
            if cur == *bkt {
                reached = true;
                break;
            }
            if meta.get(cur as usize).map_or(true, |&m| m == META_EMPTY) {
                hit_empty = Some(cur);
                break;
            }
        }
        if !reached {
            let who = d.pages.get(&label.to_vec()).and_then(|s| s.path.clone()).map(|x| path_str(&x)).unwrap_or_else(|| hx(label));
            match hit_empty {
                Some(e) => p.add("ht", format!("bucket {bkt}: page {who} is unreachable, its probe sequence meets empty bucket {e} first")),
                None => p.add("ht", format!("bucket {bkt}: page {who} is never reached by its probe sequence")),
            }
        }
    }
    if schemes.contains("shifted") {
        d.notes.push(
            "page labels use PageId::encode's add-then-shift form (64x the documented value); PageId::decode is not its inverse".into(),
        );
    }
    if schemes.len() > 1 {
        p.add("ht", "page labels use two different encodings".into());
    }
}

fn decode_wal(dir: &Path, d: &mut Decoded, p: &mut Problems) {
    let Ok(f) = File::open(dir.join("wal")) else {
        p.add("wal", "cannot open file wal".into());
        return;
    };
    let len = f.metadata().map(|m| m.len()).unwrap_or(0);
    d.wal_len = len;
    if len == 0 {
        return;
    }
    if len % PAGE as u64 != 0 {
        p.add("wal", format!("wal length {len} is not a multiple of the page size"));
    }
    let mut hdr = [0u8; 5];
    if f.read_exact_at(&mut hdr, 0).is_ok() && hdr[0] == 1 {
        let seqn = u32::from_le_bytes([hdr[1], hdr[2], hdr[3], hdr[4]]);
        d.wal_sync_seqn = Some(seqn);
        d.notes.push(format!(
            "wal is non-empty ({len} bytes) with sync_seqn {seqn}; meta sync_seqn is {}{}",
            d.meta.sync_seqn,
            if seqn == d.meta.sync_seqn { " (recovery would replay it into ht)" } else { " (recovery would discard it)" }
        ));
    } else {
        p.add("wal", format!("wal is non-empty ({len} bytes) but does not begin with a start entry"));
    }
}

// ---------------------------------------------------------------------------------------------
// check_merkle

/// Additional semantic checks given the hasher name ("blake3" or "sha2").  Appends to `problems`.
pub fn check_merkle(d: &mut Decoded, hasher: &str) {
    let mut p = Problems::new();
    match hasher {
        "blake3" => check_merkle_h::<Blake3Hasher>(d, &mut p),
        "sha2" => check_merkle_h::<Sha2Hasher>(d, &mut p),
        other => p.add("merkle", format!("unknown hasher {other}")),
    }
    d.problems.extend(p.finish());
}

struct Walker<'a, H> {
    keys: &'a [(Key, [u8; 32])],
    by_path: HashMap<Vec<u8>, &'a StoredPage>,
    visited: HashSet<Vec<u8>>,
    elided: Vec<Vec<u8>>,
    p: &'a mut Problems,
    _h: std::marker::PhantomData<H>,
}

impl<'a, H: NodeHasher> Walker<'a, H> {
    /// first index in lo..hi whose key has bit `depth` set.
    fn split(&self, lo: usize, hi: usize, depth: usize) -> usize {
        lo + self.keys[lo..hi].partition_point(|(k, _)| !key_bit(k, depth))
    }

    /// reference node of the sub-trie holding keys lo..hi which share their first `depth` bits.
    fn ref_node(&self, lo: usize, hi: usize, depth: usize) -> [u8; 32] {
        match hi - lo {
            0 => [0u8; 32],
            1 => H::hash_leaf(&LeafData { key_path: self.keys[lo].0, value_hash: self.keys[lo].1 }),
            _ => {
                if depth >= 256 {
                    return [0u8; 32]; // unreachable for distinct keys
                }
                let mid = self.split(lo, hi, depth);
                let left = self.ref_node(lo, mid, depth + 1);
                let right = self.ref_node(mid, hi, depth + 1);
                H::hash_internal(&InternalData { left, right })
            }
        }
    }

    /// Walk the stored page `path` whose parent position (depth 6*len) is internal over lo..hi.
    /// Returns the reference hashes of the two top positions, or None if the page is missing.
    fn walk_page(&mut self, path: &[u8], lo: usize, hi: usize) -> Option<([u8; 32], [u8; 32])> {
        let page = *self.by_path.get(path)?;
        self.visited.insert(path.to_vec());
        let depth = 6 * path.len();
        if depth >= 256 {
            return None;
        }
        let mid = self.split(lo, hi, depth);
        let l = self.check_pos(page, path, 0, lo, mid, depth + 1);
        let r = self.check_pos(page, path, 1, mid, hi, depth + 1);
        Some((l, r))
    }

    /// Check the stored node `idx` of `page` (trie position at `depth`, keys lo..hi below it).
    fn check_pos(&mut self, page: &StoredPage, path: &[u8], idx: usize, lo: usize, hi: usize, depth: usize) -> [u8; 32] {
        let expected = match hi - lo {
            0 => [0u8; 32],
            1 => H::hash_leaf(&LeafData { key_path: self.keys[lo].0, value_hash: self.keys[lo].1 }),
            _ if depth >= 256 => [0u8; 32],
            _ => {
                let dip = depth - 6 * path.len();
                if dip < 6 {
                    let mid = self.split(lo, hi, depth);
                    let left = self.check_pos(page, path, 2 * idx + 2, lo, mid, depth + 1);
                    let right = self.check_pos(page, path, 2 * idx + 3, mid, hi, depth + 1);
                    H::hash_internal(&InternalData { left, right })
                } else {
                    let c = (idx - 62) as u8;
                    let mut child = path.to_vec();
                    child.push(c);
                    if (page.elided_children >> c) & 1 == 1 {
                        self.elided.push(child);
                        self.ref_node(lo, hi, depth)
                    } else {
                        match self.walk_page(&child, lo, hi) {
                            Some((left, right)) => H::hash_internal(&InternalData { left, right }),
                            None => {
                                self.p.add(
                                    "merkle",
                                    format!("page {} is missing: position {} of page {} is internal over {} keys and not marked elided", path_str(&child), idx, path_str(path), hi - lo),
                                );
                                self.ref_node(lo, hi, depth)
                            }
                        }
                    }
                }
            }
        };
        match page.nodes.get(idx) {
            Some(stored) if *stored == expected => {}
            Some(stored) => self.p.add(
                "merkle",
                format!("page {} node {idx} (depth {depth}, {} keys below): stored {} expected {}", path_str(path), hi - lo, hx(stored), hx(&expected)),
            ),
            None => self.p.add("merkle", format!("page {} has no node {idx}", path_str(path))),
        }
        expected
    }
}

fn check_merkle_h<H: NodeHasher + ValueHasher>(d: &Decoded, p: &mut Problems) {
    // value hashes (and the overflow cells' recorded hashes).
    let mut keys: Vec<(Key, [u8; 32])> = Vec::with_capacity(d.kv.len());
    for (k, v) in &d.kv {
        let vh = H::hash_value(&v.value);
        if let Some(o) = &v.overflow {
            if o.value_hash != vh {
                p.add("overflow", format!("key {}: overflow cell records value hash {} but the value hashes to {}", hx(k), hx(&o.value_hash), hx(&vh)));
            }
        }
        keys.push((*k, vh));
    }
    let mut by_path: HashMap<Vec<u8>, &StoredPage> = HashMap::new();
    for sp in d.pages.values() {
        if let Some(path) = &sp.path {
            by_path.insert(path.clone(), sp);
        }
    }
    let n = keys.len();
    let mut w = Walker::<H> { keys: &keys, by_path, visited: HashSet::new(), elided: Vec::new(), p, _h: std::marker::PhantomData };
    if n >= 2 {
        if w.walk_page(&[], 0, n).is_none() {
            w.p.add("merkle", format!("the root page is missing although the trie has {n} keys"));
        }
    } else if let Some(root) = w.by_path.get(&Vec::new() as &Vec<u8>).copied() {
        // nomt derives the root from nodes 0/1 of a present root page: both must be terminators
        // when the trie has at most one key.
        w.visited.insert(Vec::new());
        for i in 0..2 {
            if root.nodes.get(i).map_or(true, |nd| *nd != [0u8; 32]) {
                w.p.add("merkle", format!("root page node {i} is not a terminator although the trie has {n} keys"));
            }
        }
    }
    let Walker { visited, elided, p, .. } = w;
    for sp in d.pages.values() {
        match &sp.path {
            Some(path) if visited.contains(path) => {}
            Some(path) => {
                let under = elided.iter().find(|e| path.starts_with(e));
                match under {
                    Some(e) => p.add("merkle", format!("page {} (bucket {}) is stored although page {} is marked elided in its parent", path_str(path), sp.bucket, path_str(e))),
                    None => p.add("merkle", format!("orphan page {} (bucket {}): not reachable from the root through internal, non-elided positions", path_str(path), sp.bucket)),
                }
            }
            None => p.add("merkle", format!("orphan page in bucket {} with an undecodable label", sp.bucket)),
        }
    }
}

// ---------------------------------------------------------------------------------------------
// command line

fn alloc_json(a: &FileAlloc) -> serde_json::Value {
    serde_json::json!({
        "bump": a.bump,
        "free": a.free.len(),
        "fl_pages": a.fl_pages.len(),
        "live": a.live.len(),
        "file_pages": a.file_pages,
    })
}

/// `nvh decode <dir> [blake3|sha2]` prints a JSON summary; `nvh decode --selftest` runs the
/// self-test.  The exit status is 0 whenever decoding ran; inspect `problems`.
pub fn main(args: &[String]) -> anyhow::Result<()> {
    let Some(first) = args.first() else {
        anyhow::bail!("usage: nvh decode <dir> [blake3|sha2] | nvh decode --selftest");
    };
    if first == "--selftest" {
        return selftest();
    }
    if first == "--probe-overflow-leak" {
        return probe_overflow_leak();
    }
    let mut d = decode_dir(Path::new(first))?;
    if let Some(h) = args.get(1) {
        anyhow::ensure!(h == "blake3" || h == "sha2", "unknown hasher {h}");
        check_merkle(&mut d, h);
    }
    let out = serde_json::json!({
        "meta": {
            "version": d.meta.version,
            "sync_seqn": d.meta.sync_seqn,
            "ln_freelist_pn": d.meta.ln_freelist_pn,
            "bbn_freelist_pn": d.meta.bbn_freelist_pn,
            "bitbox_num_pages": d.meta.bitbox_num_pages,
            "bitbox_seed": hx(&d.meta.bitbox_seed),
            "rollback_start_live": d.meta.rollback_start_live,
            "rollback_end_live": d.meta.rollback_end_live,
        },
        "keys": d.kv.len(),
        "overflow_values": d.kv.values().filter(|v| v.overflow.is_some()).count(),
        "leaves": d.leaves.len(),
        "ln": alloc_json(&d.ln),
        "bbn": alloc_json(&d.bbn),
        "buckets": d.buckets,
        "stored_pages": d.pages.len(),
        "wal_len": d.wal_len,
        "wal_sync_seqn": d.wal_sync_seqn,
        "merkle_checked": args.get(1),
        "notes": d.notes,
        "problems": d.problems,
    });
    println!("{}", serde_json::to_string(&out)?);
    Ok(())
}

// ---------------------------------------------------------------------------------------------
// self-test

struct SplitMix(u64);

impl SplitMix {
    fn next(&mut self) -> u64 {
        self.0 = self.0.wrapping_add(0x9e3779b97f4a7c15);
        let mut z = self.0;
        z = (z ^ (z >> 30)).wrapping_mul(0xbf58476d1ce4e5b9);
        z = (z ^ (z >> 27)).wrapping_mul(0x94d049bb133111eb);
        z ^ (z >> 31)
    }
    fn key(&mut self) -> Key {
        let mut k = [0u8; 32];
        for c in k.chunks_mut(8) {
            c.copy_from_slice(&self.next().to_le_bytes());
        }
        k
    }
    fn bytes(&mut self, n: usize) -> Vec<u8> {
        let mut v = Vec::with_capacity(n + 8);
        while v.len() < n {
            v.extend_from_slice(&self.next().to_le_bytes());
        }
        v.truncate(n);
        v
    }
    fn small_value(&mut self) -> Vec<u8> {
        let n = (self.next() % 40) as usize + 1;
        self.bytes(n)
    }
}

type Model = BTreeMap<Key, Vec<u8>>;

struct SelfTest {
    base: std::path::PathBuf,
    commits: usize,
    notes: BTreeSet<String>,
    max_stats: (usize, usize, usize, usize), // free ln, free bbn, stored pages, overflow values
    /// per store: overflow pages per key as of the last decode.
    last_overflow: HashMap<String, BTreeMap<Key, Vec<u32>>>,
    /// per store: pages that may legitimately show up as leaked because of the known defect
    /// "overflow pages of a replaced/deleted value are not freed" (see `probe_overflow_leak`).
    leak_candidates: HashMap<String, BTreeSet<u32>>,
    /// leaks observed and attributed to that defect: (store, commit, pages).
    observed_leaks: Vec<(String, usize, usize)>,
}

impl SelfTest {
    fn commit<H: nomt::HashAlgorithm>(
        &mut self,
        name: &str,
        hasher: &str,
        model: &mut Model,
        changes: Vec<(Key, Option<Vec<u8>>)>,
    ) -> anyhow::Result<()> {
        use nomt::{KeyReadWrite, Nomt, Options, SessionParams};
        let dir = self.base.join(name);
        let mut by_key: BTreeMap<Key, Option<Vec<u8>>> = BTreeMap::new();
        for (k, v) in changes {
            by_key.insert(k, v);
        }
        {
            let mut o = Options::new();
            o.path(&dir);
            o.hashtable_buckets(4096);
            o.preallocate_ht(false);
            o.rollback(false);
            o.commit_concurrency(1);
            let nomt = Nomt::<H>::open(o)?;
            let session = nomt.begin_session(SessionParams::default());
            let actuals: Vec<_> = by_key.iter().map(|(k, v)| (*k, KeyReadWrite::Write(v.clone()))).collect();
            session.finish(actuals)?.commit(&nomt)?;
            drop(nomt);
        }
        let changed_keys: Vec<Key> = by_key.keys().copied().collect();
        for (k, v) in by_key {
            match v {
                Some(v) => {
                    model.insert(k, v);
                }
                None => {
                    model.remove(&k);
                }
            }
        }
        self.commits += 1;
        // pages of overflow values replaced or deleted by this commit.
        {
            let prev = self.last_overflow.entry(name.to_string()).or_default();
            let cand = self.leak_candidates.entry(name.to_string()).or_default();
            for k in &changed_keys {
                if let Some(pages) = prev.get(k) {
                    cand.extend(pages.iter().copied());
                }
            }
        }
        let mut d = decode_dir(&dir)?;
        let structural = d.problems.len();
        check_merkle(&mut d, hasher);
        let cand = self.leak_candidates.get(name).cloned().unwrap_or_default();
        let leaks_attributed = !d.ln_leaked.is_empty() && d.ln_leaked.iter().all(|pn| cand.contains(pn));
        let mut errs: Vec<String> = if leaks_attributed {
            self.observed_leaks.push((name.to_string(), self.commits, d.ln_leaked.len()));
            d.problems.iter().filter(|m| !m.starts_with("ln-leak:")).cloned().collect()
        } else {
            d.problems.clone()
        };
        // leaked pages stay leaked; freed ones leave the candidate set.
        {
            let leaked: BTreeSet<u32> = d.ln_leaked.iter().copied().collect();
            self.leak_candidates.insert(name.to_string(), cand.intersection(&leaked).copied().collect());
            let mut ov = BTreeMap::new();
            for (k, v) in &d.kv {
                if let Some(o) = &v.overflow {
                    ov.insert(*k, o.pages.clone());
                }
            }
            self.last_overflow.insert(name.to_string(), ov);
        }
        if d.kv.len() != model.len() {
            errs.push(format!("decoded {} keys, model has {}", d.kv.len(), model.len()));
        }
        for (k, v) in model.iter() {
            match d.kv.get(k) {
                None => errs.push(format!("key {} missing from decoded image", hx(k))),
                Some(vr) if vr.value != *v => errs.push(format!("key {}: decoded value ({} bytes) differs from written ({} bytes)", hx(k), vr.value.len(), v.len())),
                Some(vr) => {
                    if (v.len() > MAX_LEAF_VALUE_SIZE) != vr.overflow.is_some() {
                        errs.push(format!("key {}: value of {} bytes stored {}", hx(k), v.len(), if vr.overflow.is_some() { "as overflow" } else { "inline" }));
                    }
                }
            }
        }
        for k in d.kv.keys() {
            if !model.contains_key(k) {
                errs.push(format!("decoded image has extra key {}", hx(k)));
            }
        }
        if d.wal_len != 0 {
            errs.push(format!("wal not empty after clean close ({} bytes)", d.wal_len));
        }
        // sanity of the checker itself: the wrong hasher must be rejected when there is anything to check.
        if model.len() >= 2 {
            let mut d2 = decode_dir(&dir)?;
            let before = d2.problems.len();
            check_merkle(&mut d2, if hasher == "blake3" { "sha2" } else { "blake3" });
            if d2.problems.len() == before {
                errs.push("check_merkle accepted the wrong hasher".into());
            }
        }
        for n in &d.notes {
            self.notes.insert(n.clone());
        }
        self.max_stats.0 = self.max_stats.0.max(d.ln.free.len());
        self.max_stats.1 = self.max_stats.1.max(d.bbn.free.len());
        self.max_stats.2 = self.max_stats.2.max(d.pages.len());
        self.max_stats.3 = self.max_stats.3.max(d.kv.values().filter(|v| v.overflow.is_some()).count());
        eprintln!(
            "selftest {name} commit {}: keys={} leaves={} ln(bump={},free={},fl={},live={}) bbn(bump={},free={},fl={},live={}) pages={} full={} tomb={} structural_problems={} total_problems={}",
            self.commits, d.kv.len(), d.leaves.len(), d.ln.bump, d.ln.free.len(), d.ln.fl_pages.len(), d.ln.live.len(),
            d.bbn.bump, d.bbn.free.len(), d.bbn.fl_pages.len(), d.bbn.live.len(), d.pages.len(), d.buckets.full, d.buckets.tombstones,
            structural, d.problems.len()
        );
        if !errs.is_empty() {
            for e in errs.iter().take(60) {
                eprintln!("  FAIL {e}");
            }
            anyhow::bail!("selftest {name}: {} failures after commit {} (store kept? no)", errs.len(), self.commits);
        }
        Ok(())
    }
}

pub fn selftest() -> anyhow::Result<()> {
    let base = std::path::PathBuf::from(format!("/var/tmp/nvh-decode-selftest-{}", std::process::id()));
    let _ = std::fs::remove_dir_all(&base);
    std::fs::create_dir_all(&base)?;
    let mut st = SelfTest { base: base.clone(), commits: 0, notes: BTreeSet::new(), max_stats: (0, 0, 0, 0), last_overflow: HashMap::new(), leak_candidates: HashMap::new(), observed_leaks: Vec::new() };
    let r = selftest_inner(&mut st);
    let keep = match std::env::var("NVH_DECODE_KEEP") {
        Ok(v) if v == "always" => true,
        Ok(_) => r.is_err(),
        Err(_) => false,
    };
    if !keep {
        let _ = std::fs::remove_dir_all(&base);
    } else {
        eprintln!("selftest: stores kept in {}", base.display());
    }
    r?;
    for n in &st.notes {
        eprintln!("selftest note: {n}");
    }
    println!(
        "{}",
        serde_json::json!({"selftest": "ok", "commits": st.commits, "max_ln_free": st.max_stats.0, "max_bbn_free": st.max_stats.1,
            "max_stored_pages": st.max_stats.2, "max_overflow_values": st.max_stats.3, "notes": st.notes,
            "tolerated_overflow_leaks": st.observed_leaks.iter().map(|(n, c, k)| serde_json::json!({"store": n, "commit": c, "leaked_pages": k})).collect::<Vec<_>>()})
    );
    Ok(())
}

fn selftest_inner(st: &mut SelfTest) -> anyhow::Result<()> {
    // unit checks of the helpers
    for size in [1333usize, 4092, 4093, 20000, 61380, 61381, 70000, 300000, 4092 * 16 - 4, 4092 * 16 - 3, 4092 * 15 + 4092 * 1023] {
        let t = total_needed_pages(size);
        anyhow::ensure!(t * OVERFLOW_BODY >= size + t.saturating_sub(15) * 4, "total_needed_pages({size}) = {t} too small");
    }
    anyhow::ensure!(decode_documented(&[0u8; 32]) == Some(vec![]), "root label");
    let mut rng = SplitMix(0x5eed_0001);

    // (a) random keys, small values
    for (i, n) in [1usize, 2, 50, 2000, 30000].into_iter().enumerate() {
        let name = format!("a{n}");
        let mut model = Model::new();
        let changes: Vec<_> = (0..n).map(|_| (rng.key(), Some(rng.small_value()))).collect();
        if i % 2 == 0 {
            st.commit::<Blake3Hasher>(&name, "blake3", &mut model, changes)?;
        } else {
            st.commit::<Sha2Hasher>(&name, "sha2", &mut model, changes)?;
        }
    }

    // (b) value sizes mixed with small ones, then overwrite/delete them
    {
        let mut model = Model::new();
        let sizes = [0usize, 1, 1332, 1333, 4096, 20000, 70000, 300000];
        let mut changes = Vec::new();
        let mut big_keys = Vec::new();
        for s in sizes {
            let k = rng.key();
            big_keys.push(k);
            changes.push((k, Some(rng.bytes(s))));
            for _ in 0..20 {
                changes.push((rng.key(), Some(rng.small_value())));
            }
        }
        st.commit::<Blake3Hasher>("b", "blake3", &mut model, changes)?;
        // overwrite big ones with other sizes, delete some
        let mut changes = Vec::new();
        for (i, k) in big_keys.iter().enumerate() {
            match i % 3 {
                0 => changes.push((*k, None)),
                1 => changes.push((*k, Some(rng.bytes(sizes[(i + 3) % sizes.len()])))),
                _ => {}
            }
        }
        changes.push((rng.key(), Some(rng.bytes(4092 * 15))));
        changes.push((rng.key(), Some(rng.bytes(4092 * 15 + 1))));
        changes.push((rng.key(), Some(rng.bytes(4092 * 16 - 4))));
        changes.push((rng.key(), Some(rng.bytes(4092 * 16 - 3))));
        st.commit::<Blake3Hasher>("b", "blake3", &mut model, changes)?;
        let all: Vec<Key> = model.keys().copied().collect();
        let changes = all.iter().map(|k| (*k, None)).collect();
        st.commit::<Blake3Hasher>("b", "blake3", &mut model, changes)?;
        let changes = (0..5).map(|_| (rng.key(), Some(rng.bytes(5000)))).collect();
        st.commit::<Blake3Hasher>("b", "blake3", &mut model, changes)?;
    }

    // (c) several commits with overwrites and deletions
    {
        let mut model = Model::new();
        let changes: Vec<_> = (0..6000).map(|_| (rng.key(), Some(rng.small_value()))).collect();
        st.commit::<Blake3Hasher>("c", "blake3", &mut model, changes)?;
        for round in 0..6 {
            let keys: Vec<Key> = model.keys().copied().collect();
            let mut changes = Vec::new();
            for (i, k) in keys.iter().enumerate() {
                match (i + round) % 4 {
                    0 | 1 => changes.push((*k, None)),
                    2 if i % 3 == 0 => changes.push((*k, Some(rng.small_value()))),
                    _ => {}
                }
            }
            let reinsert = if round % 2 == 0 { 2500 } else { 300 };
            for _ in 0..reinsert {
                let v = if rng.next() % 50 == 0 { rng.bytes(3000) } else { rng.small_value() };
                changes.push((rng.key(), Some(v)));
            }
            st.commit::<Blake3Hasher>("c", "blake3", &mut model, changes)?;
        }
        let keys: Vec<Key> = model.keys().copied().collect();
        let changes = keys.iter().map(|k| (*k, None)).collect();
        st.commit::<Blake3Hasher>("c", "blake3", &mut model, changes)?;
        let changes = vec![(rng.key(), Some(rng.small_value()))];
        st.commit::<Blake3Hasher>("c", "blake3", &mut model, changes)?;
    }

    // (d) long common prefixes and elision thresholds
    for (name, hasher) in [("d_blake3", "blake3"), ("d_sha2", "sha2")] {
        let mut model = Model::new();
        let run = |st: &mut SelfTest, model: &mut Model, changes: Vec<(Key, Option<Vec<u8>>)>| -> anyhow::Result<()> {
            if hasher == "blake3" {
                st.commit::<Blake3Hasher>(name, hasher, model, changes)
            } else {
                st.commit::<Sha2Hasher>(name, hasher, model, changes)
            }
        };
        // 40 keys differing only in the last byte
        let base = rng.key();
        let mut changes = Vec::new();
        for i in 0..40u8 {
            let mut k = base;
            k[31] = i.wrapping_mul(5);
            changes.push((k, Some(rng.small_value())));
        }
        // clusters of 19, 20, 21 and 30 keys under distinct 12-bit prefixes
        let mut clusters: Vec<Vec<Key>> = Vec::new();
        for (j, n) in [19usize, 20, 21, 30, 64].into_iter().enumerate() {
            let mut c = Vec::new();
            for _ in 0..n {
                let mut k = rng.key();
                k[0] = 0x10 + j as u8;
                k[1] = (k[1] & 0x0f) | 0xa0;
                c.push(k);
                changes.push((k, Some(rng.small_value())));
            }
            clusters.push(c);
        }
        // a cluster under an 18-bit prefix (page depth 3) and one under a 60-bit prefix
        for _ in 0..45 {
            let mut k = rng.key();
            k[0] = 0x77;
            k[1] = 0x77;
            k[2] = (k[2] & 0x3f) | 0x40;
            changes.push((k, Some(rng.small_value())));
        }
        let deep = rng.key();
        for _ in 0..28 {
            let mut k = rng.key();
            k[..7].copy_from_slice(&deep[..7]);
            k[7] = (deep[7] & 0xf0) | (k[7] & 0x0f);
            changes.push((k, Some(rng.small_value())));
        }
        // some background keys
        for _ in 0..300 {
            changes.push((rng.key(), Some(rng.small_value())));
        }
        run(st, &mut model, changes)?;
        // shrink clusters across the threshold, grow the small one
        let mut changes = Vec::new();
        for k in clusters[3].iter().take(15) {
            changes.push((*k, None));
        }
        for k in clusters[2].iter().take(2) {
            changes.push((*k, None));
        }
        for _ in 0..5 {
            let mut k = rng.key();
            k[0] = 0x10;
            k[1] = (k[1] & 0x0f) | 0xa0;
            changes.push((k, Some(rng.small_value())));
        }
        for i in 0..30u8 {
            let mut k = base;
            k[31] = i.wrapping_mul(5);
            changes.push((k, None));
        }
        run(st, &mut model, changes)?;
        // remove the rest of the byte-suffix cluster but one, then all
        let mut changes = Vec::new();
        for i in 30..39u8 {
            let mut k = base;
            k[31] = i.wrapping_mul(5);
            changes.push((k, None));
        }
        for k in clusters[4].iter().take(50) {
            changes.push((*k, None));
        }
        run(st, &mut model, changes)?;
        // keys differing only in the last 4 bits (deepest possible pages), added and removed
        let base2 = rng.key();
        let mut changes = Vec::new();
        for i in 0..16u8 {
            let mut k = base2;
            k[31] = (k[31] & 0xf0) | i;
            changes.push((k, Some(rng.small_value())));
        }
        run(st, &mut model, changes)?;
        let mut changes = Vec::new();
        for i in 0..15u8 {
            let mut k = base2;
            k[31] = (k[31] & 0xf0) | i;
            changes.push((k, None));
        }
        run(st, &mut model, changes)?;
    }
    Ok(())
}

// ---------------------------------------------------------------------------------------------
// deterministic reproducer of the overflow-page leak found by the self-test

/// `nvh decode --probe-overflow-leak`: minimal stores showing when the pages of a replaced or
/// deleted overflow value are not returned to the free list.  Prints one JSON line.
///
/// Cause (beatree/ops/update/leaf_updater.rs, `LeafUpdater::keep_up_to`): the early return
/// `if from == to { return; }` precedes the `if found { .. with_deleted_overflow(val) }` block, so
/// the old overflow cell is dropped silently whenever the changed key is the first key of its
/// leaf or directly follows another changed key.
pub fn probe_overflow_leak() -> anyhow::Result<()> {
    use nomt::{KeyReadWrite, Nomt, Options, SessionParams};
    let base = std::path::PathBuf::from(format!("/var/tmp/nvh-decode-probe-{}", std::process::id()));
    let _ = std::fs::remove_dir_all(&base);
    std::fs::create_dir_all(&base)?;
    let key = |b: u8| -> Key {
        let mut k = [0u8; 32];
        k[0] = b;
        k
    };
    let big = |seed: u8| -> Vec<u8> { (0..5000usize).map(|i| (i as u8).wrapping_mul(31).wrapping_add(seed)).collect() };
    let small = |seed: u8| -> Vec<u8> { vec![seed; 8] };
    // (name, first commit, second commit, leak expected by the analysis above)
    let cases: Vec<(&str, Vec<(Key, Option<Vec<u8>>)>, Vec<(Key, Option<Vec<u8>>)>, bool)> = vec![
        ("A_delete_overflow_after_kept_key", vec![(key(1), Some(small(1))), (key(2), Some(big(2))), (key(3), Some(small(3)))], vec![(key(2), None)], false),
        ("B_delete_overflow_after_deleted_key", vec![(key(1), Some(small(1))), (key(2), Some(big(2))), (key(3), Some(small(3)))], vec![(key(1), None), (key(2), None)], true),
        ("C_delete_overflow_first_key_of_leaf", vec![(key(1), Some(big(1))), (key(2), Some(small(2)))], vec![(key(1), None)], true),
        ("D_overwrite_overflow_after_overwritten_key", vec![(key(1), Some(small(1))), (key(2), Some(big(2)))], vec![(key(1), Some(small(9))), (key(2), Some(big(7)))], true),
        ("E_overwrite_overflow_after_kept_key", vec![(key(1), Some(small(1))), (key(2), Some(big(2)))], vec![(key(2), Some(big(7)))], false),
    ];
    let mut out = Vec::new();
    let mut result = Ok(());
    for (name, c1, c2, expect_leak) in cases {
        let dir = base.join(name);
        for batch in [c1, c2] {
            let mut o = Options::new();
            o.path(&dir);
            o.hashtable_buckets(4096);
            o.preallocate_ht(false);
            o.rollback(false);
            o.commit_concurrency(1);
            let nomt = Nomt::<Blake3Hasher>::open(o)?;
            let session = nomt.begin_session(SessionParams::default());
            let actuals: Vec<_> = batch.into_iter().map(|(k, v)| (k, KeyReadWrite::Write(v))).collect();
            session.finish(actuals)?.commit(&nomt)?;
        }
        let mut d = decode_dir(&dir)?;
        check_merkle(&mut d, "blake3");
        let other: Vec<&String> = d.problems.iter().filter(|m| !m.starts_with("ln-leak:")).collect();
        if !other.is_empty() {
            result = Err(anyhow::anyhow!("probe {name}: unexpected problems {other:?}"));
        }
        out.push(serde_json::json!({
            "case": name, "leaked_ln_pages": d.ln_leaked, "ln_bump": d.ln.bump, "ln_free": d.ln.free,
            "ln_live": d.ln.live, "leak_predicted": expect_leak, "leak_observed": !d.ln_leaked.is_empty(),
        }));
    }
    let _ = std::fs::remove_dir_all(&base);
    println!("{}", serde_json::json!({"probe": "overflow-leak", "cases": out}));
    result
}
