//! Thin wrappers over nomt::verif (present because the harness is built with --cfg nomt_verif).

pub fn set_segment_size(bytes: u64) {
    nomt::verif::set_segment_size(bytes);
}
