//! `nvh conc`: concurrent driver (C15).  N threads run seeded random legal call sequences against one
//! store.  Every call is logged with a global sequence number taken at its linearisation point:
//!   * begin_session / commit / try_commit / rollback: inside the store, while the access lock is
//!     held (hook points "lin"), so the order of these records is the order of lock acquisitions;
//!   * finish / drop: when the call STARTS (the session's shared lock is released inside the call,
//!     so nothing that needs the lock exclusively can be ordered before this record);
//!   * everything else: when the call returns.
//! Sorted by that number the log is a sequential history of NomtApi calls; ApiTrace validates it with
//! the per-step global observation relaxed (no atomic global observation exists while other threads
//! run) but with every session view, every outcome, every root and the final quiescent state checked.

use crate::concr::{Concretisation, Key, Rng, StoreCfg};
use crate::refmodel;
use crate::replay::{classify_err, verify_witness, World};
use crate::watchdog;
use nomt::hasher::{Blake3Hasher, Sha2Hasher};
use nomt::{FinishedSession, HashAlgorithm, KeyReadWrite, Session, SessionParams, WitnessMode};
use serde::Deserialize;
use serde_json::{json, Map, Value as J};
use std::cell::RefCell;
use std::collections::{BTreeMap, BTreeSet};
use std::io::{BufRead, Write};
use std::path::{Path, PathBuf};
use std::sync::{Arc, Mutex};

#[derive(Deserialize, Clone, Debug)]
pub struct ConcScript {
    pub run: u64,
    #[serde(default)]
    pub cfg: StoreCfg,
    pub conc: Concretisation,
    pub threads: usize,
    pub ops: usize,
    #[serde(default)]
    pub seed: u64,
    /// install the yield-point callback that sleeps pseudo-randomly before lock acquisitions
    #[serde(default)]
    pub yields: bool,
    /// how many overlays the run may create in total (NomtApi's MaxOvl for the trace)
    #[serde(default)]
    pub max_ovl: u64,
}

struct Log {
    seq: u64,
    recs: Vec<J>,
    sess_free: BTreeSet<u64>,
    fin_free: BTreeSet<u64>,
    /// overlay identifiers are handed out in order and never recycled (as in NomtApi)
    next_ovl: u64,
    max_ovl: u64,
}

impl Log {
    fn push(&mut self, mut rec: J) -> usize {
        self.seq += 1;
        rec["seq"] = json!(self.seq);
        self.recs.push(rec);
        self.recs.len() - 1
    }
}

struct Shared {
    log: Mutex<Log>,
}

/// The threads only use `&self` methods of the world that touch the (thread-safe) store handle and
/// immutable concretisation data, never its per-run handle maps.
struct ShareWorld<T: HashAlgorithm>(World<T>);
unsafe impl<T: HashAlgorithm> Sync for ShareWorld<T> {}
unsafe impl<T: HashAlgorithm> Send for ShareWorld<T> {}

thread_local! {
    /// what the current thread is about to do: (expected lin point, record to log at that point)
    static PENDING: RefCell<Option<(String, J, Arc<Shared>)>> = RefCell::new(None);
    /// index of the record logged at the lin point (+ allocated id)
    static LOGGED: RefCell<Option<(usize, u64)>> = RefCell::new(None);
    static YIELD_RNG: RefCell<Option<Rng>> = RefCell::new(None);
}

fn on_point(class: &str, name: &str) {
    if class == "yield" {
        YIELD_RNG.with(|r| {
            if let Some(rng) = r.borrow_mut().as_mut() {
                match rng.below(4) {
                    0 => std::thread::yield_now(),
                    1 => std::thread::sleep(std::time::Duration::from_micros(rng.below(300))),
                    _ => {}
                }
            }
        });
        return;
    }
    PENDING.with(|p| {
        let hit = matches!(&*p.borrow(), Some((want, _, _)) if want == name);
        if hit {
            let (_, mut rec, sh) = p.borrow_mut().take().unwrap();
            let mut log = sh.log.lock().unwrap();
            let mut id = 0;
            if rec["ev"] == "Begin" {
                id = *log.sess_free.iter().next().expect("session ids exhausted");
                log.sess_free.remove(&id);
                rec["s"] = json!(id);
            }
            // a changeset is consumed at this point of the order (NomtApi frees its identifier in the
            // Commit / TryCommit action), not when the call returns
            if rec["ev"] == "Commit" || rec["ev"] == "TryCommit" {
                if let Some(f) = rec["f"].as_u64() {
                    log.fin_free.insert(f);
                }
            }
            let idx = log.push(rec);
            LOGGED.with(|l| *l.borrow_mut() = Some((idx, id)));
        }
    });
}

fn arm(sh: &Arc<Shared>, point: &str, rec: J) {
    PENDING.with(|p| *p.borrow_mut() = Some((point.to_string(), rec, sh.clone())));
    LOGGED.with(|l| *l.borrow_mut() = None);
}

fn disarm() -> Option<(usize, u64)> {
    PENDING.with(|p| *p.borrow_mut() = None);
    LOGGED.with(|l| l.borrow_mut().take())
}

fn view_of<T: HashAlgorithm>(w: &World<T>, s: &Session<T>) -> (Map<String, J>, bool, [u8; 32], BTreeMap<Key, Vec<u8>>) {
    w.observe_with(&|k| s.read(k))
}

fn thread_main<T: HashAlgorithm + 'static>(w: Arc<ShareWorld<T>>, sh: Arc<Shared>, tid: usize, sc: ConcScript) {
    let w = &w.0;
    let mut rng = Rng::new(sc.seed ^ ((tid as u64 + 1) * 0x9E37));
    if sc.yields {
        YIELD_RNG.with(|r| *r.borrow_mut() = Some(Rng::new(sc.seed ^ 0xABCD ^ tid as u64)));
    }
    let nomt = w.nomt.as_ref().unwrap();
    let mut sess: Option<(u64, Session<T>, bool)> = None;
    let mut fin: Option<(u64, FinishedSession)> = None;
    let mut ovl: Option<(u64, nomt::Overlay)> = None;
    for opi in 0..sc.ops {
        watchdog::progress(&format!("conc run {} thread {tid} op {opi}", sc.run));
        if let Some((sid, s, witness)) = sess.take() {
            // holding a session: read, finish or drop
            match rng.below(if fin.is_some() { 2 } else { 4 }) {
                0 => {
                    // re-read the view: it must not have moved
                    let (view, probes_ok, _, _) = view_of(&w, &s);
                    sh.log.lock().unwrap().push(json!({"ev":"SessionRead","t":tid,"s":sid,"view":view,"viewProbesOk":probes_ok}));
                    sess = Some((sid, s, witness));
                }
                1 => {
                    let mut log = sh.log.lock().unwrap();
                    log.sess_free.insert(sid);
                    log.push(json!({"ev":"DropSession","a":"DropSession","t":tid,"s":sid,"res":"Ok"}));
                    drop(log);
                    drop(s);
                }
                _ => {
                    // finish with a random batch over model keys
                    let mut writes = Map::new();
                    for name in &w.conc.keys {
                        let v = match rng.below(4) {
                            0 => "NoCh".to_string(),
                            1 => "Nil".to_string(),
                            _ => w.conc.vals[rng.below(w.conc.vals.len() as u64) as usize].clone(),
                        };
                        writes.insert(name.clone(), J::String(v));
                    }
                    let (view2, _, _, mut content) = view_of(&w, &s);
                    let prev = s.prev_root().into_inner();
                    let mut actuals: BTreeMap<Key, KeyReadWrite> = BTreeMap::new();
                    let mut reads: BTreeMap<Key, Option<Vec<u8>>> = BTreeMap::new();
                    let mut written: BTreeMap<Key, Option<Vec<u8>>> = BTreeMap::new();
                    for (i, k) in &w.all_keys {
                        let mv = writes[&w.conc.keys[*i]].as_str().unwrap();
                        if mv == "NoCh" {
                            continue;
                        }
                        let newv = if mv == "Nil" { None } else { Some(w.vt.bytes(mv, k)) };
                        written.insert(*k, newv.clone());
                        if rng.chance(1, 2) {
                            let r = s.read(*k).unwrap_or(None);
                            reads.insert(*k, r.clone());
                            actuals.insert(*k, KeyReadWrite::ReadThenWrite(r, newv));
                        } else {
                            actuals.insert(*k, KeyReadWrite::Write(newv));
                        }
                    }
                    // logged when the call starts (see module doc)
                    let (idx, fid) = {
                        let mut log = sh.log.lock().unwrap();
                        let fid = *log.fin_free.iter().next().expect("changeset ids exhausted");
                        log.fin_free.remove(&fid);
                        log.sess_free.insert(sid);
                        let idx = log.push(json!({"ev":"Finish","a":"Finish","t":tid,"s":sid,"f":fid,"w":writes,"view":view2,"res":"Ok"}));
                        (idx, fid)
                    };
                    let r = s.finish(actuals.into_iter().collect());
                    match r {
                        Ok(mut f) => {
                            for (k, v) in &written {
                                match v {
                                    Some(b) => {
                                        content.insert(*k, b.clone());
                                    }
                                    None => {
                                        content.remove(k);
                                    }
                                }
                            }
                            let exp_root = refmodel::root_of_map::<T>(&content);
                            let new_root = f.root().into_inner();
                            let mut extra = json!({"newRootOk": exp_root == new_root, "prevRootSame": f.prev_root().into_inner() == prev});
                            if witness {
                                match f.take_witness() {
                                    Some(wit) => {
                                        let (ok, msg) = verify_witness::<T>(&wit, prev, new_root, &reads, &written);
                                        extra["witnessOk"] = json!(ok);
                                        if !ok {
                                            extra["witnessMsg"] = json!(msg);
                                        }
                                    }
                                    None => extra["witnessOk"] = json!(false),
                                }
                            }
                            let mut log = sh.log.lock().unwrap();
                            for (k, v) in extra.as_object().unwrap() {
                                log.recs[idx][k] = v.clone();
                            }
                            drop(log);
                            fin = Some((fid, f));
                        }
                        Err(e) => {
                            sh.log.lock().unwrap().recs[idx]["res"] = json!(format!("Err:{e:#}"));
                        }
                    }
                }
            }
            continue;
        }
        // not holding a session
        if let Some((oid, o)) = ovl.take() {
            // holding an overlay (built on the committed state): commit it one way or the other, or drop it
            match rng.below(5) {
                0 | 1 => {
                    arm(&sh, "overlay_commit.locked", json!({"ev":"OverlayCommit","a":"OverlayCommit","t":tid,"o":oid}));
                    let r = o.commit(nomt);
                    let res = match r {
                        Ok(()) => "Ok".to_string(),
                        Err(e) => classify_err(&e),
                    };
                    let idx = disarm().map(|x| x.0);
                    let mut log = sh.log.lock().unwrap();
                    match idx {
                        Some(i) => log.recs[i]["res"] = json!(res),
                        None => {
                            log.push(json!({"ev":"OverlayCommit","a":"OverlayCommit","t":tid,"o":oid,"res":res,"nolin":true}));
                        }
                    }
                }
                2 | 3 => {
                    arm(&sh, "overlay_try_commit.locked", json!({"ev":"OverlayTryCommit","a":"OverlayTryCommit","t":tid,"o":oid}));
                    let r = o.try_commit_nonblocking(nomt);
                    let idx = disarm().map(|x| x.0);
                    let mut log = sh.log.lock().unwrap();
                    match r {
                        Ok(Some(back)) => {
                            log.push(json!({"ev":"OverlayTryCommit","a":"OverlayTryCommit","t":tid,"o":oid,"res":"HandedBack"}));
                            drop(log);
                            ovl = Some((oid, back));
                        }
                        other => {
                            let res = match other {
                                Ok(None) => "Ok".to_string(),
                                Err(e) => classify_err(&e),
                                _ => unreachable!(),
                            };
                            match idx {
                                Some(i) => log.recs[i]["res"] = json!(res),
                                None => {
                                    log.push(json!({"ev":"OverlayTryCommit","a":"OverlayTryCommit","t":tid,"o":oid,"res":res,"nolin":true}));
                                }
                            }
                        }
                    }
                }
                _ => {
                    sh.log.lock().unwrap().push(json!({"ev":"DropOverlay","a":"DropOverlay","t":tid,"o":oid,"res":"Ok"}));
                    drop(o);
                }
            }
            continue;
        }
        let choice = rng.below(10);
        if fin.is_some() && rng.chance(1, 4) {
            // turn the changeset into an overlay if identifiers are left
            let (fid, f) = fin.take().unwrap();
            let mut log = sh.log.lock().unwrap();
            if log.next_ovl <= log.max_ovl {
                let oid = log.next_ovl;
                log.next_ovl += 1;
                log.fin_free.insert(fid);
                log.push(json!({"ev":"IntoOverlay","a":"IntoOverlay","t":tid,"f":fid,"o":oid,"res":"Ok"}));
                drop(log);
                ovl = Some((oid, f.into_overlay()));
                continue;
            }
            drop(log);
            fin = Some((fid, f));
        }
        if let Some((fid, f)) = fin.take() {
            if choice < 4 {
                arm(&sh, "commit.locked", json!({"ev":"Commit","a":"Commit","t":tid,"f":fid}));
                let r = f.commit(nomt);
                let res = match r {
                    Ok(()) => "Ok".to_string(),
                    Err(e) => classify_err(&e),
                };
                let idx = disarm().map(|x| x.0);
                let mut log = sh.log.lock().unwrap();
                match idx {
                    // the identifier was freed when the record was logged at the linearisation point
                    Some(i) => log.recs[i]["res"] = json!(res),
                    None => {
                        log.fin_free.insert(fid);
                        log.push(json!({"ev":"Commit","a":"Commit","t":tid,"f":fid,"res":res,"nolin":true}));
                    }
                }
                continue;
            } else if choice < 8 {
                arm(&sh, "try_commit.locked", json!({"ev":"TryCommit","a":"TryCommit","t":tid,"f":fid}));
                let r = f.try_commit_nonblocking(nomt);
                let idx = disarm().map(|x| x.0);
                let mut log = sh.log.lock().unwrap();
                match r {
                    Ok(Some(back)) => {
                        log.push(json!({"ev":"TryCommit","a":"TryCommit","t":tid,"f":fid,"res":"HandedBack"}));
                        drop(log);
                        fin = Some((fid, back));
                    }
                    other => {
                        let res = match other {
                            Ok(None) => "Ok".to_string(),
                            Err(e) => classify_err(&e),
                            _ => unreachable!(),
                        };
                        match idx {
                            Some(i) => log.recs[i]["res"] = json!(res),
                            None => {
                                log.fin_free.insert(fid);
                                log.push(json!({"ev":"TryCommit","a":"TryCommit","t":tid,"f":fid,"res":res,"nolin":true}));
                            }
                        }
                    }
                }
                continue;
            } else if choice == 8 {
                let mut log = sh.log.lock().unwrap();
                log.fin_free.insert(fid);
                log.push(json!({"ev":"DropFinished","a":"DropFinished","t":tid,"f":fid,"res":"Ok"}));
                drop(log);
                drop(f);
                continue;
            } else {
                fin = Some((fid, f));
                // fall through: begin a session while holding a changeset
            }
        }
        if choice == 9 && fin.is_none() && w.cfg.rollback {
            let n = 1 + rng.below(2);
            arm(&sh, "rollback.locked", json!({"ev":"Rollback","a":"Rollback","t":tid,"n":n}));
            let r = nomt.rollback(n as usize);
            let res = match r {
                Ok(()) => "Ok".to_string(),
                Err(e) => classify_err(&e),
            };
            let idx = disarm().map(|x| x.0);
            let mut log = sh.log.lock().unwrap();
            match idx {
                Some(i) => log.recs[i]["res"] = json!(res),
                None => {
                    log.push(json!({"ev":"Rollback","a":"Rollback","t":tid,"n":n,"res":res,"nolin":true}));
                }
            }
            continue;
        }
        // begin a session
        let witness = rng.chance(1, 2);
        let params = SessionParams::default().witness_mode(if witness { WitnessMode::read_write() } else { WitnessMode::disabled() });
        arm(&sh, "begin_session.locked", json!({"ev":"Begin","a":"Begin","t":tid,"chain":[],"res":"Ok","witness":witness}));
        let s = nomt.begin_session(params);
        let Some((idx, sid)) = disarm() else {
            // the hook did not fire: cannot place this session in the order - treat as tool error
            sh.log.lock().unwrap().push(json!({"ev":"HarnessErr","msg":"begin_session lin point did not fire"}));
            return;
        };
        let (view, probes_ok, ref_root, _) = view_of(&w, &s);
        let prev_ok = s.prev_root().into_inner() == ref_root;
        let (pok, np, pmsg) = if prev_ok && rng.chance(1, 3) { w.proofs_ok(&s) } else { (true, 0, String::new()) };
        {
            let mut log = sh.log.lock().unwrap();
            let r = &mut log.recs[idx];
            r["view"] = J::Object(view);
            r["viewProbesOk"] = json!(probes_ok);
            r["prevRootOk"] = json!(prev_ok);
            r["proofsOk"] = json!(pok);
            r["proofs"] = json!(np);
            if !pmsg.is_empty() {
                r["proofMsg"] = json!(pmsg);
            }
        }
        sess = Some((sid, s, witness));
    }
    // release what is still held
    if let Some((sid, s, _)) = sess.take() {
        let mut log = sh.log.lock().unwrap();
        log.sess_free.insert(sid);
        log.push(json!({"ev":"DropSession","a":"DropSession","t":tid,"s":sid,"res":"Ok"}));
        drop(log);
        drop(s);
    }
    if let Some((fid, f)) = fin.take() {
        let mut log = sh.log.lock().unwrap();
        log.fin_free.insert(fid);
        log.push(json!({"ev":"DropFinished","a":"DropFinished","t":tid,"f":fid,"res":"Ok"}));
        drop(log);
        drop(f);
    }
    if let Some((oid, o)) = ovl.take() {
        sh.log.lock().unwrap().push(json!({"ev":"DropOverlay","a":"DropOverlay","t":tid,"o":oid,"res":"Ok"}));
        drop(o);
    }
}

fn run<T: HashAlgorithm + 'static>(sc: &ConcScript, scratch: &Path, out: &mut dyn Write) -> anyhow::Result<()> {
    let dir = scratch.join(format!("conc{}", sc.run));
    let _ = std::fs::remove_dir_all(&dir);
    let mut w: World<T> = World::new(dir.clone(), sc.cfg.clone(), sc.conc.clone())?;
    let st0 = w.observe();
    writeln!(out, "{}", json!({"ev":"reset","run":sc.run,"cfg":serde_json::to_value(&sc.cfg)?, "threads": sc.threads,
               "maxlog": sc.cfg.max_rollback_log_len, "rollback": sc.cfg.rollback, "st": st0}))?;
    let n = sc.threads.max(1);
    let sh = Arc::new(Shared {
        log: Mutex::new(Log { seq: 0, recs: Vec::new(), sess_free: (1..=n as u64).collect(), fin_free: (1..=n as u64).collect(),
                              next_ovl: 1, max_ovl: sc.max_ovl }),
    });
    nomt::verif::install_points(Some(Arc::new(|c: &str, n: &str| on_point(c, n))));
    let w = Arc::new(ShareWorld(w));
    let mut handles = Vec::new();
    for t in 0..n {
        let (w2, sh2, sc2) = (w.clone(), sh.clone(), sc.clone());
        handles.push(std::thread::Builder::new().name(format!("conc-{t}")).spawn(move || thread_main::<T>(w2, sh2, t, sc2))?);
    }
    let mut panicked = false;
    for h in handles {
        if h.join().is_err() {
            panicked = true;
        }
    }
    nomt::verif::install_points(None);
    let mut recs = std::mem::take(&mut sh.log.lock().unwrap().recs);
    recs.sort_by_key(|r| r["seq"].as_u64().unwrap_or(0));
    for (i, mut r) in recs.into_iter().enumerate() {
        r["run"] = json!(sc.run);
        r["i"] = json!(i);
        writeln!(out, "{}", r)?;
    }
    if panicked {
        writeln!(out, "{}", json!({"ev":"ThreadPanic","run":sc.run}))?;
    }
    // the final quiescent observation
    let mut w = match Arc::try_unwrap(w) {
        Ok(sw) => sw.0,
        Err(_) => anyhow::bail!("world still shared"),
    };
    let st = w.observe();
    writeln!(out, "{}", json!({"ev":"Observe","run":sc.run,"st":st}))?;
    w.close();
    let _ = std::fs::remove_dir_all(&dir);
    Ok(())
}

pub fn main(args: &[String]) -> anyhow::Result<()> {
    anyhow::ensure!(args.len() >= 3, "usage: nvh conc <scripts> <out> <scratch>");
    let scripts = std::fs::File::open(&args[0])?;
    let mut out = std::io::BufWriter::new(std::fs::File::create(&args[1])?);
    let scratch = PathBuf::from(&args[2]);
    std::fs::create_dir_all(&scratch)?;
    watchdog::start(60, Some(PathBuf::from(&args[1]).with_extension("hang")));
    for line in std::io::BufReader::new(scripts).lines() {
        let line = line?;
        if line.trim().is_empty() {
            continue;
        }
        let sc: ConcScript = serde_json::from_str(&line)?;
        match sc.cfg.hasher.as_str() {
            "sha2" => run::<Sha2Hasher>(&sc, &scratch, &mut out)?,
            _ => run::<Blake3Hasher>(&sc, &scratch, &mut out)?,
        }
        out.flush()?;
    }
    Ok(())
}
