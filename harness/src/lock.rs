//! `nvh lock`: one directory, at most one live handle (C20).  Scenarios with threads of this process
//! and child processes (this binary re-executed); every attempt to open is logged with its result,
//! a content hash of the directory before/after a refused attempt, and the I/O events of a handle
//! that arrive after its unlock event.  LockTrace.tla validates the log.

use crate::concr::{Concretisation, Rng, StoreCfg};
use crate::rec;
use nomt::hasher::Blake3Hasher;
use nomt::{KeyReadWrite, Nomt, SessionParams};
use serde_json::{json, Value as J};
use std::io::{BufRead, BufReader, Write};
use std::path::{Path, PathBuf};
use std::process::{Command, Stdio};

fn dir_hash(dir: &Path) -> String {
    let mut names: Vec<PathBuf> = std::fs::read_dir(dir).map(|d| d.filter_map(|e| e.ok().map(|e| e.path())).collect()).unwrap_or_default();
    names.sort();
    let mut h = blake3::Hasher::new();
    for p in names {
        if p.file_name().map_or(false, |n| n == ".lock") {
            continue;
        }
        h.update(p.file_name().unwrap().to_string_lossy().as_bytes());
        if let Ok(b) = std::fs::read(&p) {
            h.update(&(b.len() as u64).to_le_bytes());
            h.update(&b);
        }
    }
    h.finalize().to_hex().to_string()
}

fn opts(dir: &Path, rollback: bool, warm_up: bool, cc: usize) -> nomt::Options {
    let mut cfg = StoreCfg::default();
    cfg.hashtable_buckets = 64;
    cfg.rollback = rollback;
    cfg.warm_up = warm_up;
    cfg.commit_concurrency = cc;
    cfg.options(dir)
}

fn try_open(dir: &Path) -> Result<Nomt<Blake3Hasher>, String> {
    Nomt::<Blake3Hasher>::open(opts(dir, true, false, 1)).map_err(|e| format!("{e:#}"))
}

fn try_open_cfg(dir: &Path, warm_up: bool, cc: usize) -> Result<Nomt<Blake3Hasher>, String> {
    Nomt::<Blake3Hasher>::open(opts(dir, true, warm_up, cc)).map_err(|e| format!("{e:#}"))
}

fn commit_some(n: &Nomt<Blake3Hasher>, seed: u64) -> anyhow::Result<()> {
    let mut rng = Rng::new(seed);
    let mut k = [0u8; 32];
    rng.fill(&mut k);
    let s = n.begin_session(SessionParams::default());
    s.finish(vec![(k, KeyReadWrite::Write(Some(vec![7u8; 100])))])?.commit(n)?;
    Ok(())
}

/// child: `nvh lock child-open <dir>` prints OPEN-OK / OPEN-ERR and exits;
///        `nvh lock child-hold <dir>` opens, prints HELD (or OPEN-ERR), commits in a loop until killed.
fn child(mode: &str, dir: &Path) -> anyhow::Result<()> {
    match try_open(dir) {
        Err(_) => println!("OPEN-ERR"),
        Ok(n) => {
            if mode == "child-open" {
                println!("OPEN-OK");
            } else {
                println!("HELD");
                std::io::stdout().flush()?;
                let mut i = 0;
                loop {
                    commit_some(&n, 1000 + i)?;
                    i += 1;
                }
            }
        }
    }
    std::io::stdout().flush()?;
    Ok(())
}

fn spawn_child(mode: &str, dir: &Path) -> std::io::Result<std::process::Child> {
    Command::new(std::env::current_exe()?).arg("lock").arg(mode).arg(dir).stdout(Stdio::piped()).stderr(Stdio::null()).spawn()
}

fn child_open_result(dir: &Path) -> String {
    match spawn_child("child-open", dir).and_then(|c| c.wait_with_output()) {
        Ok(o) => String::from_utf8_lossy(&o.stdout).trim().to_string(),
        Err(e) => format!("SPAWN-ERR:{e}"),
    }
}

fn scenario(id: u64, seed: u64, scratch: &Path, out: &mut dyn Write) -> anyhow::Result<()> {
    let dir = scratch.join(format!("lock{id}"));
    let _ = std::fs::remove_dir_all(&dir);
    let mut rng = Rng::new(seed);
    let mut log = |out: &mut dyn Write, mut j: J| -> anyhow::Result<()> {
        j["sc"] = json!(id);
        writeln!(out, "{}", j)?;
        Ok(())
    };
    log(out, json!({"ev":"reset"}))?;
    // A: first handle (creates the store), with I/O recording
    rec::install(&dir);
    rec::start(None);
    // the first handle uses a random configuration (warm-up workers, several commit workers)
    let warm = rng.chance(1, 2);
    let cc = 1 + rng.below(3) as usize;
    let a = try_open_cfg(&dir, warm, cc);
    log(out, json!({"ev":"open","who":"A","how":"thread","res": if a.is_ok() {"Ok"} else {"Err"}, "unchanged": true, "warm_up": warm, "cc": cc}))?;
    let a = a.map_err(|e| anyhow::anyhow!(e))?;
    commit_some(&a, seed)?;
    // sessions that are begun and abandoned (never finished), with and without warm-ups
    for i in 0..rng.below(3) {
        let s = a.begin_session(SessionParams::default());
        if rng.chance(1, 2) {
            let mut k = [0u8; 32];
            Rng::new(seed + i).fill(&mut k);
            s.warm_up(k);
            let _ = s.read(k);
        }
        drop(s);
    }
    // B: same process, other thread(s), racing
    let before = dir_hash(&dir);
    let racers = 1 + rng.below(3) as usize;
    let results: Vec<bool> = std::thread::scope(|s| {
        let hs: Vec<_> = (0..racers).map(|_| { let d = dir.clone(); s.spawn(move || try_open(&d).is_ok()) }).collect();
        hs.into_iter().map(|h| h.join().unwrap_or(false)).collect()
    });
    let after = dir_hash(&dir);
    for (i, ok) in results.iter().enumerate() {
        log(out, json!({"ev":"open","who":format!("B{i}"),"how":"thread","res": if *ok {"Ok"} else {"Err"}, "unchanged": before == after}))?;
    }
    // C: another process
    let before = dir_hash(&dir);
    let r = child_open_result(&dir);
    let after = dir_hash(&dir);
    log(out, json!({"ev":"open","who":"C","how":"process","res": if r == "OPEN-OK" {"Ok"} else if r == "OPEN-ERR" {"Err"} else {"Tool"}, "raw": r, "unchanged": before == after}))?;
    // how A ends
    let ending = rng.below(3);
    if ending == 1 {
        // a failed commit (injected fault) poisons the handle first
        rec::stop();
        rec::start(Some(rec::FailSpec { nth: rng.below(6), errno: 5, persistent: true }));
        let _ = commit_some(&a, seed + 1);
        log(out, json!({"ev":"poison","who":"A","poisoned": a.is_poisoned()}))?;
        rec::stop();
        rec::start(None);
    }
    drop(a);
    let (events, _) = rec::stop();
    // I/O of A after its unlock event
    let unlock_at = events.iter().position(|e| e.kind == "unlock");
    let late = unlock_at.map(|u| events[u + 1..].iter().filter(|e| e.kind != "unlock" && e.kind != "lock").count()).unwrap_or(0);
    log(out, json!({"ev":"close","who":"A","unlockSeen": unlock_at.is_some(), "lateIo": late, "ending": ending}))?;
    rec::uninstall();
    // D: a child holds the handle and is killed
    let mut ch = spawn_child("child-hold", &dir)?;
    let mut line = String::new();
    BufReader::new(ch.stdout.take().unwrap()).read_line(&mut line)?;
    log(out, json!({"ev":"open","who":"D","how":"process","res": if line.trim() == "HELD" {"Ok"} else {"Err"}, "unchanged": true}))?;
    if line.trim() == "HELD" {
        std::thread::sleep(std::time::Duration::from_millis(20 + rng.below(60)));
        let before = dir_hash(&dir);
        let e = try_open(&dir);
        // D keeps committing, so the directory legitimately changes; only the refused opener must not write:
        // it holds no handle, so compare nothing here
        let _ = before;
        log(out, json!({"ev":"open","who":"E","how":"thread","res": if e.is_ok() {"Ok"} else {"Err"}, "unchanged": true}))?;
        drop(e);
        ch.kill()?;
        ch.wait()?;
        log(out, json!({"ev":"kill","who":"D"}))?;
        // after the holder died the directory opens again and is consistent
        let f = try_open(&dir);
        let ok = f.is_ok();
        let mut usable = false;
        if let Ok(n) = &f {
            usable = commit_some(n, seed + 9).is_ok();
        }
        log(out, json!({"ev":"open","who":"F","how":"thread","res": if ok {"Ok"} else {"Err"}, "unchanged": true, "usable": usable,
                        "err": f.as_ref().err().cloned().unwrap_or_default()}))?;
        drop(f);
        log(out, json!({"ev":"close","who":"F","unlockSeen": true, "lateIo": 0, "ending": 0}))?;
    }
    // G/H: a handle whose last session is abandoned (warm-ups pending) or finished-and-dropped right before the
    // handle itself goes away; the directory must open again AT ONCE (nothing the user still holds is alive)
    if !dir.exists() {
        drop(try_open(&dir));
    }
    for round in 0..3u64 {
        let g = try_open_cfg(&dir, true, 1 + rng.below(3) as usize);
        let ok = g.is_ok();
        log(out, json!({"ev":"open","who":format!("G{round}"),"how":"thread","res": if ok {"Ok"} else {"Err"}, "unchanged": true,
                        "err": g.as_ref().err().cloned().unwrap_or_default()}))?;
        if let Ok(g) = g {
            let s = g.begin_session(SessionParams::default());
            for j in 0..rng.below(6) {
                let mut k = [0u8; 32];
                Rng::new(seed * 31 + round * 7 + j).fill(&mut k);
                s.warm_up(k);
            }
            match rng.below(3) {
                0 => drop(s),
                1 => drop(s.finish(vec![])),
                _ => {
                    let _ = s.finish(vec![]).and_then(|f| f.commit(&g));
                }
            }
            drop(g);
            log(out, json!({"ev":"close","who":format!("G{round}"),"unlockSeen": true, "lateIo": 0, "ending": 0}))?;
        }
    }
    // H: a forked child (fork without exec) inherits every descriptor of the process, the lock file's too: the
    // handle's drop must release the directory itself, not leave it to the last descriptor being closed
    {
        let h = try_open(&dir);
        log(out, json!({"ev":"open","who":"H","how":"thread","res": if h.is_ok() {"Ok"} else {"Err"}, "unchanged": true,
                        "err": h.as_ref().err().cloned().unwrap_or_default()}))?;
        if let Ok(h) = h {
            out.flush()?;
            let pid = unsafe { libc::fork() };
            if pid == 0 {
                // child: async-signal-safe calls only
                let ts = libc::timespec { tv_sec: 0, tv_nsec: 400_000_000 };
                unsafe {
                    libc::nanosleep(&ts, std::ptr::null_mut());
                    libc::_exit(0);
                }
            }
            drop(h);
            log(out, json!({"ev":"close","who":"H","unlockSeen": true, "lateIo": 0, "ending": 0}))?;
            let again = try_open(&dir);
            log(out, json!({"ev":"open","who":"H2","how":"thread","res": if again.is_ok() {"Ok"} else {"Err"}, "unchanged": true,
                            "err": again.as_ref().err().cloned().unwrap_or_default(), "forkedChildAlive": pid > 0}))?;
            if again.is_ok() {
                drop(again);
                log(out, json!({"ev":"close","who":"H2","unlockSeen": true, "lateIo": 0, "ending": 0}))?;
            }
            if pid > 0 {
                let mut status = 0i32;
                unsafe { libc::waitpid(pid, &mut status, 0) };
            }
        }
    }
    let _ = std::fs::remove_dir_all(&dir);
    Ok(())
}

pub fn main(args: &[String]) -> anyhow::Result<()> {
    // nvh lock run <n> <seed> <out> <scratch>   |   nvh lock child-open <dir>   |   nvh lock child-hold <dir>
    anyhow::ensure!(!args.is_empty(), "usage: nvh lock run <n> <seed> <out> <scratch>");
    match args[0].as_str() {
        "child-open" | "child-hold" => child(&args[0], Path::new(&args[1])),
        "race" => {
            // nvh lock race <n> <dir> <warm 0|1> <mode>: open, begin a session (warm-ups), end it in <mode>, drop
            // the handle and reopen at once; prints how often the reopen was refused
            let n: u64 = args[1].parse()?;
            let dir = PathBuf::from(&args[2]);
            let warm = args[3] == "1";
            let mode = args.get(4).map(|s| s.as_str()).unwrap_or("drop");
            let _ = std::fs::remove_dir_all(&dir);
            let mut refused = 0;
            for i in 0..n {
                let a = try_open_cfg(&dir, warm, 2).map_err(|e| anyhow::anyhow!(e))?;
                commit_some(&a, i)?;
                let s = a.begin_session(SessionParams::default());
                for j in 0..8u64 {
                    let mut k = [0u8; 32];
                    Rng::new(i * 100 + j).fill(&mut k);
                    s.warm_up(k);
                }
                match mode {
                    "drop" => drop(s),
                    "finish" => drop(s.finish(vec![])?),
                    _ => { s.finish(vec![])?.commit(&a)?; }
                }
                drop(a);
                match try_open_cfg(&dir, warm, 2) {
                    Ok(b) => drop(b),
                    Err(_) => { refused += 1; std::thread::sleep(std::time::Duration::from_millis(50)); }
                }
            }
            println!("refused {refused} of {n}");
            Ok(())
        }
        "run" => {
            let n: u64 = args[1].parse()?;
            let seed: u64 = args[2].parse()?;
            let mut out = std::io::BufWriter::new(std::fs::File::create(&args[3])?);
            let scratch = PathBuf::from(&args[4]);
            std::fs::create_dir_all(&scratch)?;
            crate::watchdog::start(60, Some(PathBuf::from(&args[3]).with_extension("hang")));
            for i in 0..n {
                crate::watchdog::progress(&format!("lock scenario {i}"));
                scenario(i + 1, seed.wrapping_mul(7919).wrapping_add(i), &scratch, &mut out)?;
                out.flush()?;
            }
            let _ = Concretisation { keys: vec![], vals: vec![], emb: "top".into(), f: 1, vtable: Default::default(), seed: 0, probes: 0 };
            Ok(())
        }
        other => anyhow::bail!("unknown lock mode {other}"),
    }
}
