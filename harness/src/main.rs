//! nvh - the NOMT verification harness.  Sub-commands produce observation traces for TLC and
//! evaluate byte-level predicates; the TLA+ specifications in /verif/spec are the oracle.

mod conc;
mod concr;
mod crash;
mod decode;
mod hooks;
mod lock;
mod proofs;
mod rec;
mod refmodel;
mod replay;
mod shadow;
mod term;
mod watchdog;

fn main() {
    let args: Vec<String> = std::env::args().skip(1).collect();
    let Some(cmd) = args.first() else {
        eprintln!("usage: nvh <replay|...> args");
        std::process::exit(2);
    };
    let rest = &args[1..];
    let r = match cmd.as_str() {
        "replay" => replay::main(rest),
        "proofs" => proofs::main(rest),
        "crash" => crash::main(rest),
        "decode" => decode::main(rest),
        "conc" => conc::main(rest),
        "lock" => lock::main(rest),
        other => Err(anyhow::anyhow!("unknown sub-command {other}")),
    };
    if let Err(e) = r {
        eprintln!("nvh: tool error: {e:#}");
        std::process::exit(2);
    }
}
