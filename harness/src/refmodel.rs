//! Reference trie root, written from docs/nomt_specification.md only ("Nodes"): an empty
//! sub-trie is the terminator, a sub-trie with a single pair is that pair's leaf, anything else is
//! an internal node over its two maximally compressed halves.  Uses only the hasher's
//! hash_leaf / hash_internal / hash_value; shares no code with nomt's update path.

use crate::concr::{get_bit, Key};
use nomt::hasher::{NodeHasher, ValueHasher};
use nomt::trie::{InternalData, LeafData, Node, TERMINATOR};
use std::collections::BTreeMap;

pub fn value_hash<H: ValueHasher>(v: &[u8]) -> [u8; 32] {
    H::hash_value(v)
}

/// `items` sorted by key (a BTreeMap iteration order is bitwise lexicographic = trie order).
pub fn root_of<H: NodeHasher>(items: &[(Key, [u8; 32])]) -> Node {
    sub::<H>(items, 0)
}

fn sub<H: NodeHasher>(items: &[(Key, [u8; 32])], depth: usize) -> Node {
    match items.len() {
        0 => TERMINATOR,
        1 => H::hash_leaf(&LeafData {
            key_path: items[0].0,
            value_hash: items[0].1,
        }),
        _ => {
            // split by bit `depth`: items are sorted so the 0-side is a prefix
            let split = items.partition_point(|(k, _)| !get_bit(k, depth));
            let left = sub::<H>(&items[..split], depth + 1);
            let right = sub::<H>(&items[split..], depth + 1);
            H::hash_internal(&InternalData { left, right })
        }
    }
}

pub fn root_of_map<H: NodeHasher + ValueHasher>(m: &BTreeMap<Key, Vec<u8>>) -> Node {
    let items: Vec<(Key, [u8; 32])> = m.iter().map(|(k, v)| (*k, H::hash_value(v))).collect();
    root_of::<H>(&items)
}

/// The node at an arbitrary position (bit prefix) of the reference trie.
pub fn node_at<H: NodeHasher>(items: &[(Key, [u8; 32])], prefix: &[bool]) -> Node {
    let mut lo = 0usize;
    let mut hi = items.len();
    // the compressed trie: walking down stops at the first terminal
    let mut cur = items;
    for (d, b) in prefix.iter().enumerate() {
        if cur.len() <= 1 {
            // position below a terminal: nothing is stored there
            return TERMINATOR;
        }
        let split = cur.partition_point(|(k, _)| !get_bit(k, d));
        if *b {
            lo += split;
            cur = &cur[split..];
        } else {
            hi = lo + split;
            cur = &cur[..split];
        }
        let _ = (lo, hi);
    }
    sub::<H>(cur, prefix.len())
}
