//! I/O event recorder on top of nomt::verif (hook H-io) with fault injection.

use nomt::verif::{self, Decision, Kind, Phase};
use serde::Serialize;
use std::path::{Path, PathBuf};
use std::sync::{Arc, Mutex};

#[derive(Clone, Debug, Serialize)]
pub struct Ev {
    pub seq: u64,
    pub kind: String,
    pub phase: String,
    pub file: String,
    pub offset: u64,
    pub len: u64,
    #[serde(skip)]
    pub data: Option<Vec<u8>>,
    pub ok: bool,
    pub thread: String,
    /// set when the harness failed this operation on purpose
    pub injected: bool,
}

#[derive(Clone, Debug)]
pub struct FailSpec {
    /// fail the n-th (0-based) *mutating begin* event
    pub nth: u64,
    pub errno: i32,
    pub persistent: bool,
}

struct State {
    dir: PathBuf,
    events: Vec<Ev>,
    fail: Option<FailSpec>,
    begin_count: u64,
    injected_at: Option<u64>,
    active: bool,
}

static STATE: Mutex<Option<State>> = Mutex::new(None);

fn kind_name(k: Kind) -> &'static str {
    match k {
        Kind::WriteAt => "write",
        Kind::Append => "append",
        Kind::SetLen => "setlen",
        Kind::Fsync => "fsync",
        Kind::DirSync => "dirsync",
        Kind::Unlink => "unlink",
        Kind::Create => "create",
        Kind::Submit => "submit",
        Kind::Complete => "complete",
        Kind::Lock => "lock",
        Kind::Unlock => "unlock",
    }
}

fn file_of(dir: &Path, fd: i32, path: Option<&Path>) -> String {
    let p = match path {
        Some(p) => {
            // hook sites pass the path as the store built it (possibly relative / not canonical)
            let parent = p.parent().map(|x| x.canonicalize().unwrap_or_else(|_| x.to_path_buf()));
            match (parent, p.file_name()) {
                (Some(par), Some(name)) => par.join(name),
                _ => p.to_path_buf(),
            }
        }
        None => std::fs::read_link(format!("/proc/self/fd/{fd}")).unwrap_or_else(|_| PathBuf::from(format!("fd{fd}"))),
    };
    if p == dir {
        return ".".into();
    }
    match p.strip_prefix(dir) {
        Ok(r) => r.to_string_lossy().trim_end_matches(" (deleted)").to_string(),
        Err(_) => format!("!{}", p.to_string_lossy()),
    }
}

/// Is this a begin-event of an operation that can be failed?
fn failable(kind: Kind, phase: Phase) -> bool {
    phase == Phase::Begin
        && matches!(
            kind,
            Kind::WriteAt | Kind::Append | Kind::SetLen | Kind::Fsync | Kind::DirSync | Kind::Unlink | Kind::Create | Kind::Submit
        )
}

pub fn install(dir: &Path) {
    let dir = dir.canonicalize().unwrap_or_else(|_| dir.to_path_buf());
    *STATE.lock().unwrap() = Some(State {
        dir,
        events: Vec::new(),
        fail: None,
        begin_count: 0,
        injected_at: None,
        active: false,
    });
    verif::install(Some(Arc::new(|e: &verif::Event| {
        let mut g = STATE.lock().unwrap();
        let Some(st) = g.as_mut() else { return Decision::Proceed };
        if !st.active {
            return Decision::Proceed;
        }
        let file = file_of(&st.dir, e.fd, e.path);
        if file.starts_with('!') {
            // not a file of the database directory under observation
            return Decision::Proceed;
        }
        let mut injected = false;
        let mut decision = Decision::Proceed;
        if failable(e.kind, e.phase) {
            if let Some(f) = &st.fail {
                let hit = if f.persistent { st.begin_count >= f.nth } else { st.begin_count == f.nth };
                if hit {
                    injected = true;
                    decision = Decision::Fail(f.errno);
                    if st.injected_at.is_none() {
                        st.injected_at = Some(st.begin_count);
                    }
                }
            }
            st.begin_count += 1;
        }
        st.events.push(Ev {
            seq: e.seq,
            kind: kind_name(e.kind).to_string(),
            phase: if e.phase == Phase::Begin { "begin".into() } else { "end".into() },
            file,
            offset: e.offset,
            len: e.len,
            data: e.data.map(|d| d.to_vec()),
            ok: e.ok,
            thread: std::thread::current().name().unwrap_or("?").to_string(),
            injected,
        });
        decision
    })));
}

pub fn uninstall() {
    verif::install(None);
    *STATE.lock().unwrap() = None;
}

/// Start recording (clears the buffer).
pub fn start(fail: Option<FailSpec>) {
    if let Some(st) = STATE.lock().unwrap().as_mut() {
        st.events.clear();
        st.begin_count = 0;
        st.injected_at = None;
        st.fail = fail;
        st.active = true;
    }
}

/// Stop recording and return what was seen, plus whether a fault was injected.
pub fn stop() -> (Vec<Ev>, bool) {
    let mut g = STATE.lock().unwrap();
    match g.as_mut() {
        Some(st) => {
            st.active = false;
            st.fail = None;
            let inj = st.injected_at.is_some();
            (std::mem::take(&mut st.events), inj)
        }
        None => (Vec::new(), false),
    }
}

pub fn set_dir(dir: &Path) {
    if let Some(st) = STATE.lock().unwrap().as_mut() {
        st.dir = dir.canonicalize().unwrap_or_else(|_| dir.to_path_buf());
    }
}
