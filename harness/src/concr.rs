//! Concretisation: from model keys / values to real 32-byte keys and byte values (DESIGN 3.3).

use serde::{Deserialize, Serialize};

pub type Key = [u8; 32];

/// splitmix64: the harness' only source of pseudo-randomness (seeded, reproducible).
#[derive(Clone)]
pub struct Rng(pub u64);

impl Rng {
    pub fn new(seed: u64) -> Self {
        Rng(seed ^ 0x9E37_79B9_7F4A_7C15)
    }
    pub fn next(&mut self) -> u64 {
        self.0 = self.0.wrapping_add(0x9E37_79B9_7F4A_7C15);
        let mut z = self.0;
        z = (z ^ (z >> 30)).wrapping_mul(0xBF58_476D_1CE4_E5B9);
        z = (z ^ (z >> 27)).wrapping_mul(0x94D0_49BB_1331_11EB);
        z ^ (z >> 31)
    }
    pub fn below(&mut self, n: u64) -> u64 {
        if n == 0 {
            0
        } else {
            self.next() % n
        }
    }
    pub fn chance(&mut self, num: u64, den: u64) -> bool {
        self.below(den) < num
    }
    pub fn fill(&mut self, buf: &mut [u8]) {
        for chunk in buf.chunks_mut(8) {
            let v = self.next().to_le_bytes();
            chunk.copy_from_slice(&v[..chunk.len()]);
        }
    }
}

pub fn get_bit(k: &Key, i: usize) -> bool {
    (k[i / 8] >> (7 - (i % 8))) & 1 == 1
}

pub fn set_bit(k: &mut Key, i: usize, b: bool) {
    let m = 1u8 << (7 - (i % 8));
    if b {
        k[i / 8] |= m;
    } else {
        k[i / 8] &= !m;
    }
}

/// How model keys are embedded in the 256-bit key space.
///
/// Model key number `i` (0-based) is written in `nbits` bits; model bit `b` lands at real bit
/// `prefix + b * stride`.  The first `prefix` bits are a filler shared by *all* keys; all other
/// bits come from a per-member pseudo-random filler (member 0 of every group uses the same filler,
/// so that with F = 1 the keys differ exactly in the model bits).
#[derive(Clone, Debug, Serialize, Deserialize)]
pub struct Embedding {
    pub name: String,
    pub nbits: usize,
    pub prefix: usize,
    pub stride: usize,
    /// if true, members of one group share everything up to the end of the model bits and differ
    /// only below it (all keys of a group under one sub-trie)
    pub clustered: bool,
    pub filler_seed: u64,
    /// 0 = pseudo-random shared filler, 1 = all-zero filler, 2 = all-one filler (keys that sit
    /// exactly on sub-trie boundaries)
    #[serde(default)]
    pub filler_mode: u8,
    /// lopsided(P): the members of model key 0 are scattered over the whole key space while every other group
    /// is a cluster under a P-bit shared prefix (value-tree nodes whose separators share prefixes of very
    /// different lengths)
    #[serde(default)]
    pub lopsided: bool,
    /// ctop: model bits on top, the members of a group differ only in the last 40 bits (each group is a run of
    /// keys sharing more than 200 bits, the groups themselves are far apart: branch nodes whose first separators
    /// are prefix-compressed and whose later ones are stored in full)
    #[serde(default)]
    pub narrow: bool,
}

impl Embedding {
    pub fn parse(full_name: &str, nbits: usize, seed: u64) -> Embedding {
        // top | tail | deep(P) | spread(S) | scatter, optionally followed by ":z" / ":o"
        let (name, filler_mode) = if let Some(n) = full_name.strip_suffix(":z") {
            (n, 1u8)
        } else if let Some(n) = full_name.strip_suffix(":o") {
            (n, 2u8)
        } else {
            (full_name, 0u8)
        };
        let (prefix, stride, clustered) = if name == "top" || name == "ctop" {
            (0, 1, true)
        } else if name == "tail" {
            (256 - nbits, 1, true)
        } else if name == "scatter" {
            (0, 1, false)
        } else if let Some(p) = name.strip_prefix("deep(").and_then(|s| s.strip_suffix(')')) {
            let p: usize = p.parse().expect("deep(P)");
            (p.min(256 - nbits), 1, true)
        } else if let Some(p) = name.strip_prefix("lopsided(").and_then(|s| s.strip_suffix(')')) {
            let p: usize = p.parse().expect("lopsided(P)");
            (p.min(256 - nbits), 1, true)
        } else if let Some(s) = name.strip_prefix("spread(").and_then(|s| s.strip_suffix(')')) {
            let s: usize = s.parse().expect("spread(S)");
            let s = s.min(255 / nbits.max(1)).max(1);
            (0, s, true)
        } else {
            panic!("unknown embedding {name}");
        };
        Embedding {
            name: full_name.to_string(),
            nbits,
            prefix,
            stride,
            clustered,
            filler_seed: seed,
            filler_mode,
            lopsided: name.starts_with("lopsided("),
            narrow: name == "ctop",
        }
    }

    fn model_positions(&self) -> Vec<usize> {
        (0..self.nbits).map(|b| self.prefix + b * self.stride).collect()
    }

    /// The concrete key of member `j` of model key `i`.
    pub fn key(&self, i: usize, j: usize) -> Key {
        let mut shared = [0u8; 32];
        match self.filler_mode {
            1 => {}
            2 => shared = [0xffu8; 32],
            _ => Rng::new(self.filler_seed).fill(&mut shared),
        }
        let mut member = [0u8; 32];
        Rng::new(self.filler_seed ^ ((j as u64 + 1).wrapping_mul(0xA24B_AED4_963E_E407))).fill(&mut member);
        let pos = self.model_positions();
        let last_model = *pos.last().unwrap_or(&0);
        // where members of one group differ: below the model bits if there is room, else in the
        // 40 bits just above the shared prefix's end (24 bits gave a birthday collision among 1200 keys
        // in a few percent of the scripts: "concretisation produced duplicate keys")
        let (vlo, vhi) = if self.narrow {
            (216usize, 256usize)
        } else if !self.clustered {
            (0usize, 256usize)
        } else if 255 - last_model >= 40 {
            (last_model + 1, 256)
        } else {
            (self.prefix.saturating_sub(40), self.prefix)
        };
        let mut k = [0u8; 32];
        for bit in 0..256 {
            let src = if j > 0 && bit >= vlo && bit < vhi {
                get_bit(&member, bit)
            } else {
                get_bit(&shared, bit)
            };
            set_bit(&mut k, bit, src);
        }
        if !self.clustered || (self.lopsided && i == 0) {
            // scatter: model bits form a tag in the last bits; everything else is per-(group,member)
            let mut own = [0u8; 32];
            Rng::new(self.filler_seed ^ ((i as u64 + 1) << 32) ^ (j as u64 + 1)).fill(&mut own);
            k = own;
            for b in 0..self.nbits {
                let v = (i >> (self.nbits - 1 - b)) & 1 == 1;
                set_bit(&mut k, 256 - self.nbits + b, v);
            }
            return k;
        }
        for (b, p) in pos.iter().enumerate() {
            let v = (i >> (self.nbits - 1 - b)) & 1 == 1;
            set_bit(&mut k, *p, v);
        }
        k
    }

    /// A key that is never written: differs from member 0 of group `i` in the last non-model bit
    /// region (a close neighbour), variant `v`.
    pub fn probe(&self, i: usize, v: usize) -> Key {
        let mut k = self.key(i, 0);
        // flip a bit that is not a model bit: search from the end
        let pos = self.model_positions();
        let mut candidates: Vec<usize> = (0..256).rev().filter(|b| !pos.contains(b)).collect();
        // prefer bits after the model bits so the probe stays in the group's sub-trie
        candidates.sort_by_key(|b| if *b > *pos.last().unwrap_or(&0) { 0 } else { 1 });
        let b = candidates[v % candidates.len().max(1)];
        let cur = get_bit(&k, b);
        set_bit(&mut k, b, !cur);
        // make sure it is not a member key by also setting a marker pattern in another free bit
        let b2 = candidates[(v + 7) % candidates.len().max(1)];
        if b2 != b {
            let cur = get_bit(&k, b2);
            set_bit(&mut k, b2, !cur);
        }
        k
    }
}

/// Size classes of values (DESIGN 3.3).  Boundaries from beatree: MAX_LEAF_VALUE_SIZE = 1332,
/// overflow cell holds up to 15 page numbers, beyond that page numbers spill into pages.
pub fn class_len(class: &str, id: u64) -> usize {
    match class {
        "empty" => 0,
        "tiny" => 1 + (id % 9) as usize,
        "small" => 32 + (id % 64) as usize,
        "inline-max" => 1332,
        "overflow-min" => 1333,
        "one-page" => 4090,
        "two-page" => 4096 + 1 + (id % 5) as usize,
        "cell-max" => 15 * 4096 - 8,
        "indirect" => 16 * 4096 + 17,
        "huge" => 300 * 1024 + 3,
        other => other.parse::<usize>().unwrap_or_else(|_| panic!("unknown value class {other}")),
    }
}

#[derive(Clone, Debug, Serialize, Deserialize)]
pub struct ValueTable {
    /// model value name -> size class
    pub classes: std::collections::BTreeMap<String, String>,
}

impl ValueTable {
    pub fn bytes(&self, model_value: &str, key: &Key) -> Vec<u8> {
        let class = self
            .classes
            .get(model_value)
            .map(|s| s.as_str())
            .unwrap_or("tiny");
        // "a|b": a mixed group - one member in eight (chosen by the key) gets class a, the rest b
        let class = match class.split_once('|') {
            Some((a, b)) => {
                let sel = key.iter().fold(0u32, |h, x| h.wrapping_mul(31).wrapping_add(*x as u32));
                if sel % 8 == 0 {
                    a
                } else {
                    b
                }
            }
            None => class,
        };
        let id = model_value
            .bytes()
            .fold(0xcbf29ce484222325u64, |h, b| (h ^ b as u64).wrapping_mul(0x100000001b3));
        let len = class_len(class, id);
        let mut seed = id;
        for c in key.chunks(8) {
            let mut a = [0u8; 8];
            a.copy_from_slice(c);
            seed = seed.rotate_left(13) ^ u64::from_le_bytes(a);
        }
        let mut out = vec![0u8; len];
        Rng::new(seed).fill(&mut out);
        // make the value self-identifying in its first byte where there is room
        if len > 0 {
            out[0] = (id & 0xff) as u8;
        }
        out
    }

    /// Which model value (or "Nil") do these bytes stand for under `key`?  "BAD" if none.
    pub fn classify(&self, got: &Option<Vec<u8>>, key: &Key, vals: &[String]) -> String {
        match got {
            None => "Nil".to_string(),
            Some(b) => {
                for v in vals {
                    if &self.bytes(v, key) == b {
                        return v.clone();
                    }
                }
                "BAD".to_string()
            }
        }
    }
}

/// A store configuration (a point of the option space of C13).
#[derive(Clone, Debug, Serialize, Deserialize)]
pub struct StoreCfg {
    #[serde(default = "one")]
    pub commit_concurrency: usize,
    #[serde(default)]
    pub warm_up: bool,
    #[serde(default = "d256")]
    pub page_cache_size: usize,
    #[serde(default = "d256")]
    pub leaf_cache_size: usize,
    #[serde(default = "two")]
    pub page_cache_upper_levels: usize,
    #[serde(default)]
    pub prepopulate: bool,
    #[serde(default = "three")]
    pub io_workers: usize,
    #[serde(default = "buckets")]
    pub hashtable_buckets: u32,
    #[serde(default)]
    pub seed: u64,
    #[serde(default = "blake")]
    pub hasher: String,
    #[serde(default = "yes")]
    pub rollback: bool,
    #[serde(default = "two32")]
    pub max_rollback_log_len: u32,
    /// rollback segment size override in bytes (hook H-seg); 0 = the code's constant
    #[serde(default)]
    pub segment_size: u64,
}

fn one() -> usize {
    1
}
fn two() -> usize {
    2
}
fn three() -> usize {
    3
}
fn d256() -> usize {
    256
}
fn buckets() -> u32 {
    4096
}
fn blake() -> String {
    "blake3".into()
}
fn yes() -> bool {
    true
}
fn two32() -> u32 {
    2
}

impl Default for StoreCfg {
    fn default() -> Self {
        serde_json::from_str("{}").unwrap()
    }
}

impl StoreCfg {
    pub fn options(&self, path: &std::path::Path) -> nomt::Options {
        let mut o = nomt::Options::new();
        o.path(path);
        o.commit_concurrency(self.commit_concurrency);
        o.warm_up(self.warm_up);
        o.page_cache_size(self.page_cache_size);
        o.leaf_cache_size(self.leaf_cache_size);
        o.page_cache_upper_levels(self.page_cache_upper_levels);
        o.prepopulate_page_cache(self.prepopulate);
        o.io_workers(self.io_workers);
        o.hashtable_buckets(self.hashtable_buckets);
        let mut seed = [0u8; 16];
        Rng::new(self.seed).fill(&mut seed);
        o.bitbox_seed(seed);
        o.rollback(self.rollback);
        o.max_rollback_log_len(self.max_rollback_log_len);
        o.preallocate_ht(false);
        o
    }
}

/// Everything needed to turn a model behaviour into a concrete run.
#[derive(Clone, Debug, Serialize, Deserialize)]
pub struct Concretisation {
    pub keys: Vec<String>,
    pub vals: Vec<String>,
    pub emb: String,
    #[serde(default = "one")]
    pub f: usize,
    pub vtable: std::collections::BTreeMap<String, String>,
    #[serde(default)]
    pub seed: u64,
    /// probes (never-written neighbour keys) per model key
    #[serde(default = "two")]
    pub probes: usize,
}

impl Concretisation {
    pub fn nbits(&self) -> usize {
        let n = self.keys.len().max(2);
        (usize::BITS - (n - 1).leading_zeros()) as usize
    }
    pub fn embedding(&self) -> Embedding {
        Embedding::parse(&self.emb, self.nbits(), self.seed.wrapping_mul(0x9E37_79B9).wrapping_add(17))
    }
    pub fn vtable(&self) -> ValueTable {
        ValueTable {
            classes: self.vtable.clone(),
        }
    }
    pub fn key_index(&self, k: &str) -> usize {
        self.keys.iter().position(|x| x == k).unwrap_or_else(|| panic!("unknown model key {k}"))
    }
}
