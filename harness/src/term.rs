//! Symbolic trie terms (the node constructors of Trie.tla) and their evaluation to real hashes.
//! T, L(key, val), I(l, r), X(i).  Keys are model bit strings of length L = P + N embedded at the
//! top of the 256-bit key space; the remaining bits are a fixed filler shared by all keys.

use crate::concr::{set_bit, Key, Rng, ValueTable};
use nomt::hasher::{NodeHasher, ValueHasher};
use nomt::trie::{InternalData, LeafData, Node, TERMINATOR};
use serde_json::{json, Value as J};
use std::collections::HashMap;

#[derive(Clone, Debug, PartialEq, Eq, Hash)]
pub enum Term {
    T,
    L(Vec<u8>, String),
    I(Box<Term>, Box<Term>),
    X(u32),
}

impl Term {
    pub fn to_json(&self) -> J {
        match self {
            Term::T => json!(["T"]),
            Term::L(k, v) => json!(["L", k, v]),
            Term::I(l, r) => json!(["I", l.to_json(), r.to_json()]),
            Term::X(i) => json!(["X", i]),
        }
    }
}

pub struct Space {
    pub l: usize, // model key length in bits
    pub filler: Key,
    pub vt: ValueTable,
}

impl Space {
    pub fn new(l: usize, seed: u64, vt: ValueTable) -> Self {
        let mut filler = [0u8; 32];
        Rng::new(seed).fill(&mut filler);
        Space { l, filler, vt }
    }

    /// real key of a model key (bits of length <= l; shorter ones are padded by the filler)
    pub fn real_key(&self, bits: &[u8]) -> Key {
        let mut k = self.filler;
        for (i, b) in bits.iter().enumerate() {
            set_bit(&mut k, i, *b == 1);
        }
        k
    }

    pub fn value_bytes(&self, key_bits: &[u8], val: &str) -> Vec<u8> {
        self.vt.bytes(val, &self.real_key(key_bits))
    }

    pub fn eval<H: NodeHasher + ValueHasher>(&self, t: &Term) -> Node {
        match t {
            Term::T => TERMINATOR,
            Term::L(k, v) => H::hash_leaf(&LeafData {
                key_path: self.real_key(k),
                value_hash: H::hash_value(&self.value_bytes(k, v)),
            }),
            Term::I(l, r) => H::hash_internal(&InternalData {
                left: self.eval::<H>(l),
                right: self.eval::<H>(r),
            }),
            Term::X(i) => {
                let mut n = [0u8; 32];
                Rng::new(0xF0F0_0000 + *i as u64).fill(&mut n);
                // an "internal-looking" or "leaf-looking" foreign node, alternating
                if i % 2 == 0 {
                    n[0] &= 0x7f;
                } else {
                    n[0] |= 0x80;
                }
                n
            }
        }
    }
}

/// The canonical trie of a model map as terms, with a reverse table hash -> term.
pub struct TermTrie {
    pub nodes: HashMap<Vec<u8>, Term>, // prefix -> node term (only prefixes at or above terminals)
    pub rev: HashMap<Node, Term>,
}

pub fn build<H: NodeHasher + ValueHasher>(space: &Space, kv: &[(Vec<u8>, String)]) -> TermTrie {
    let mut tt = TermTrie {
        nodes: HashMap::new(),
        rev: HashMap::new(),
    };
    let mut sorted = kv.to_vec();
    sorted.sort();
    fn rec<H: NodeHasher + ValueHasher>(
        space: &Space,
        items: &[(Vec<u8>, String)],
        prefix: &mut Vec<u8>,
        tt: &mut TermTrie,
    ) -> Term {
        let t = match items.len() {
            0 => Term::T,
            1 => Term::L(items[0].0.clone(), items[0].1.clone()),
            _ => {
                let d = prefix.len();
                let split = items.partition_point(|(k, _)| k[d] == 0);
                prefix.push(0);
                let l = rec::<H>(space, &items[..split], prefix, tt);
                prefix.pop();
                prefix.push(1);
                let r = rec::<H>(space, &items[split..], prefix, tt);
                prefix.pop();
                Term::I(Box::new(l), Box::new(r))
            }
        };
        tt.nodes.insert(prefix.clone(), t.clone());
        tt.rev.insert(space.eval::<H>(&t), t.clone());
        t
    }
    let mut prefix = Vec::new();
    rec::<H>(space, &sorted, &mut prefix, &mut tt);
    tt.rev.insert(TERMINATOR, Term::T);
    tt
}

impl TermTrie {
    pub fn root(&self) -> Term {
        self.nodes.get(&Vec::new()).cloned().unwrap_or(Term::T)
    }
    /// term of a real hash; unknown hashes become foreign nodes numbered from 1000
    pub fn term_of(&self, n: &Node, foreign: &mut HashMap<Node, u32>) -> Term {
        if let Some(t) = self.rev.get(n) {
            return t.clone();
        }
        let next = 1000 + foreign.len() as u32;
        Term::X(*foreign.entry(*n).or_insert(next))
    }
}
