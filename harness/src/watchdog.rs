//! Hang detection: a call into the store that makes no progress for `limit` seconds is an
//! outcome (a hang), reported through a side file and exit code 3.

use std::path::PathBuf;
use std::sync::atomic::{AtomicU64, Ordering};
use std::sync::Mutex;
use std::time::{SystemTime, UNIX_EPOCH};

static LAST: AtomicU64 = AtomicU64::new(0);
static WHAT: Mutex<String> = Mutex::new(String::new());

fn now() -> u64 {
    SystemTime::now().duration_since(UNIX_EPOCH).map(|d| d.as_secs()).unwrap_or(0)
}

pub fn progress(what: &str) {
    LAST.store(now(), Ordering::SeqCst);
    if let Ok(mut w) = WHAT.lock() {
        w.clear();
        w.push_str(what);
    }
}

/// A sign of life inside a long step (one store call has returned): keeps the description of the step.
pub fn tick() {
    LAST.store(now(), Ordering::SeqCst);
}

pub fn start(limit: u64, report: Option<PathBuf>) {
    LAST.store(now(), Ordering::SeqCst);
    std::thread::Builder::new()
        .name("nvh-watchdog".into())
        .spawn(move || loop {
            std::thread::sleep(std::time::Duration::from_millis(500));
            let last = LAST.load(Ordering::SeqCst);
            if now().saturating_sub(last) > limit {
                let what = WHAT.lock().map(|w| w.clone()).unwrap_or_default();
                eprintln!("nvh: HANG (no progress for {limit}s) in: {what}");
                if let Some(p) = &report {
                    let _ = std::fs::write(p, format!("{{\"ev\":\"hang\",\"what\":{}}}\n", serde_json::Value::String(what)));
                }
                std::process::exit(3);
            }
        })
        .expect("spawn watchdog");
}


/// The last panic of the process (message and location), recorded by the hook installed with
/// `record_panics`: a panic of the code under test outside a guarded call is an outcome, not a tool error.
static LAST_PANIC: Mutex<String> = Mutex::new(String::new());

pub fn record_panics(quiet: bool) {
    let prev = std::panic::take_hook();
    std::panic::set_hook(Box::new(move |info| {
        let msg = info.payload().downcast_ref::<String>().cloned()
            .or_else(|| info.payload().downcast_ref::<&str>().map(|s| s.to_string())).unwrap_or_default();
        let loc = info.location().map(|l| format!("{}:{}", l.file(), l.line())).unwrap_or_default();
        let th = std::thread::current().name().unwrap_or("?").to_string();
        if let Ok(mut g) = LAST_PANIC.lock() {
            *g = format!("{msg} at {loc} (thread {th})");
        }
        if !quiet {
            prev(info);
        }
    }));
}

pub fn last_panic() -> String {
    LAST_PANIC.lock().map(|g| g.clone()).unwrap_or_default()
}

pub fn current() -> String {
    WHAT.lock().map(|w| w.clone()).unwrap_or_default()
}
