//! Hang detection: a call into the store that makes no progress for `limit` seconds is an
//! outcome (a hang), reported through a side file and exit code 3.

use std::path::PathBuf;
use std::sync::atomic::{AtomicU64, Ordering};
use std::sync::Mutex;
use std::time::{SystemTime, UNIX_EPOCH};

static LAST: AtomicU64 = AtomicU64::new(0);
static WHAT: Mutex<String> = Mutex::new(String::new());

fn now() -> u64 {
    SystemTime::now().duration_since(UNIX_EPOCH).map(|d| d.as_secs()).unwrap_or(0)
}

pub fn progress(what: &str) {
    LAST.store(now(), Ordering::SeqCst);
    if let Ok(mut w) = WHAT.lock() {
        w.clear();
        w.push_str(what);
    }
}

pub fn start(limit: u64, report: Option<PathBuf>) {
    LAST.store(now(), Ordering::SeqCst);
    std::thread::Builder::new()
        .name("nvh-watchdog".into())
        .spawn(move || loop {
            std::thread::sleep(std::time::Duration::from_millis(500));
            let last = LAST.load(Ordering::SeqCst);
            if now().saturating_sub(last) > limit {
                let what = WHAT.lock().map(|w| w.clone()).unwrap_or_default();
                eprintln!("nvh: HANG (no progress for {limit}s) in: {what}");
                if let Some(p) = &report {
                    let _ = std::fs::write(p, format!("{{\"ev\":\"hang\",\"what\":{}}}\n", serde_json::Value::String(what)));
                }
                std::process::exit(3);
            }
        })
        .expect("spawn watchdog");
}
