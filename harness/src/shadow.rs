//! The shadow disk: a volatile (page-cache) and a durable view of every file of the database
//! directory, kept up to date from recorded I/O events alone (the two-view model of NomtSync.tla).
//! From one recording it materialises the directory image for any crash point and any admissible
//! power-loss choice.

use crate::concr::Rng;
use crate::rec::Ev;
use std::collections::{BTreeMap, BTreeSet};
use std::io::Write;
use std::path::Path;

const PG: u64 = 4096;

#[derive(Clone, Debug, Default, PartialEq)]
pub struct FileImg {
    pub len: u64,
    /// non-zero 4 KiB pages
    pub pages: BTreeMap<u64, Vec<u8>>,
}

impl FileImg {
    pub fn write(&mut self, off: u64, data: &[u8]) {
        let mut pos = off;
        let mut rest = data;
        while !rest.is_empty() {
            let pn = pos / PG;
            let inpage = (pos % PG) as usize;
            let n = rest.len().min(PG as usize - inpage);
            let page = self.pages.entry(pn).or_insert_with(|| vec![0u8; PG as usize]);
            page[inpage..inpage + n].copy_from_slice(&rest[..n]);
            pos += n as u64;
            rest = &rest[n..];
        }
        if pos > self.len {
            self.len = pos;
        }
    }

    pub fn set_len(&mut self, len: u64) {
        if len < self.len {
            let first_gone = (len + PG - 1) / PG;
            self.pages.retain(|pn, _| *pn < first_gone);
            if len % PG != 0 {
                if let Some(p) = self.pages.get_mut(&(len / PG)) {
                    for b in &mut p[(len % PG) as usize..] {
                        *b = 0;
                    }
                }
            }
        }
        self.len = len;
    }

    pub fn read_from(path: &Path) -> std::io::Result<FileImg> {
        use std::io::Read;
        let mut f = std::fs::File::open(path)?;
        let len = f.metadata()?.len();
        let mut img = FileImg { len, pages: BTreeMap::new() };
        let mut buf = vec![0u8; 1 << 20];
        let mut pos = 0u64;
        loop {
            let n = f.read(&mut buf)?;
            if n == 0 {
                break;
            }
            let mut o = 0usize;
            while o < n {
                let m = (n - o).min(PG as usize);
                if buf[o..o + m].iter().any(|b| *b != 0) {
                    let mut p = vec![0u8; PG as usize];
                    p[..m].copy_from_slice(&buf[o..o + m]);
                    img.pages.insert((pos + o as u64) / PG, p);
                }
                o += m;
            }
            pos += n as u64;
        }
        Ok(img)
    }

    pub fn write_to(&self, path: &Path) -> std::io::Result<()> {
        use std::os::unix::fs::FileExt;
        let f = std::fs::File::create(path)?;
        f.set_len(self.len)?;
        for (pn, p) in &self.pages {
            let off = pn * PG;
            if off >= self.len {
                continue;
            }
            let n = ((self.len - off).min(PG)) as usize;
            f.write_all_at(&p[..n], off)?;
        }
        Ok(())
    }
}

pub type View = BTreeMap<String, FileImg>;

/// An operation that reached the page cache but is not yet covered by an fsync of its file.
#[derive(Clone, Debug)]
pub enum Pending {
    Write { off: u64, data: Vec<u8>, append: bool },
    SetLen(u64),
}

/// An operation that has begun and not ended at the current point.
#[derive(Clone, Debug)]
pub struct OpenOp {
    pub seq: u64,
    pub file: String,
    pub kind: String,
    pub off: u64,
    pub len: u64,
    pub data: Option<Vec<u8>>,
}

#[derive(Clone)]
pub struct Shadow {
    pub vol: View,
    pub dur: View,
    /// names whose directory entry is durable
    pub dur_names: BTreeSet<String>,
    pub pending: BTreeMap<String, Vec<Pending>>,
    pub open_ops: Vec<OpenOp>,
    /// vol snapshot taken when an fsync began (what that fsync is guaranteed to cover)
    fsync_snap: BTreeMap<String, (FileImg, usize)>,
}

pub fn read_dir_view(dir: &Path) -> std::io::Result<View> {
    let mut v = View::new();
    for e in std::fs::read_dir(dir)? {
        let e = e?;
        if e.file_type()?.is_file() {
            let name = e.file_name().to_string_lossy().to_string();
            v.insert(name, FileImg::read_from(&e.path())?);
        }
    }
    Ok(v)
}

pub fn materialise(view: &View, dir: &Path) -> std::io::Result<()> {
    let _ = std::fs::remove_dir_all(dir);
    std::fs::create_dir_all(dir)?;
    for (name, img) in view {
        if name == ".lock" {
            std::fs::File::create(dir.join(name))?.flush()?;
            continue;
        }
        img.write_to(&dir.join(name))?;
    }
    Ok(())
}

impl Shadow {
    /// At a quiescent point the directory on disk is both views.
    pub fn from_dir(dir: &Path) -> std::io::Result<Shadow> {
        let v = read_dir_view(dir)?;
        Ok(Shadow::from_views(v.clone(), v))
    }

    pub fn from_views(vol: View, dur: View) -> Shadow {
        let dur_names = dur.keys().cloned().collect();
        Shadow { vol, dur, dur_names, pending: BTreeMap::new(), open_ops: Vec::new(), fsync_snap: BTreeMap::new() }
    }

    fn apply_vol(&mut self, file: &str, p: &Pending) {
        let f = self.vol.entry(file.to_string()).or_default();
        match p {
            Pending::Write { off, data, .. } => f.write(*off, data),
            Pending::SetLen(l) => f.set_len(*l),
        }
        self.pending.entry(file.to_string()).or_default().push(p.clone());
    }

    pub fn apply(&mut self, e: &Ev) {
        let begin = e.phase == "begin";
        match (e.kind.as_str(), begin) {
            ("write", true) | ("append", true) | ("setlen", true) | ("submit", true) => {
                if !e.injected {
                    self.open_ops.push(OpenOp { seq: e.seq, file: e.file.clone(), kind: e.kind.clone(),
                        off: if e.kind == "submit" { e.offset * PG } else { e.offset }, len: e.len, data: e.data.clone() });
                }
            }
            ("write", false) | ("append", false) | ("setlen", false) | ("complete", false) => {
                // the matching begin: the oldest open op on this file of the matching kind
                let want = if e.kind == "complete" { "submit" } else { e.kind.as_str() };
                let pos = self.open_ops.iter().position(|o| {
                    o.file == e.file && o.kind == want && (e.kind != "complete" || o.off == e.offset * PG)
                });
                if let Some(i) = pos {
                    let o = self.open_ops.remove(i);
                    if e.ok {
                        let p = Self::pending_of(&o);
                        self.apply_vol(&o.file.clone(), &p);
                    }
                }
            }
            ("fsync", true) => {
                if !e.injected {
                    let img = self.vol.get(&e.file).cloned().unwrap_or_default();
                    let n = self.pending.get(&e.file).map(|v| v.len()).unwrap_or(0);
                    self.fsync_snap.insert(e.file.clone(), (img, n));
                }
            }
            ("fsync", false) => {
                if let Some((img, n)) = self.fsync_snap.remove(&e.file) {
                    self.dur.insert(e.file.clone(), img);
                    if let Some(p) = self.pending.get_mut(&e.file) {
                        let k = n.min(p.len());
                        p.drain(..k);
                    }
                }
            }
            ("create", false) => {
                self.vol.entry(e.file.clone()).or_default();
            }
            ("unlink", false) => {
                self.vol.remove(&e.file);
                // an unlink is taken as durable once done (its loss is outside the fault model)
                self.dur.remove(&e.file);
                self.dur_names.remove(&e.file);
                self.pending.remove(&e.file);
            }
            ("dirsync", false) => {
                self.dur_names = self.vol.keys().cloned().collect();
            }
            _ => {}
        }
    }

    fn pending_of(o: &OpenOp) -> Pending {
        match o.kind.as_str() {
            "setlen" => Pending::SetLen(o.len),
            "append" => Pending::Write { off: o.off, data: o.data.clone().unwrap_or_default(), append: true },
            _ => Pending::Write { off: o.off, data: o.data.clone().unwrap_or_default(), append: false },
        }
    }

    /// Process-crash images at the current point: the page cache survives; every operation that
    /// has begun but not ended is either applied or not.  Returns (label, vol view, dur view).
    pub fn crash_images(&self, max_toggles: usize) -> Vec<(String, View, View)> {
        let mut out = vec![("none".to_string(), self.vol.clone(), self.dur.clone())];
        let n = self.open_ops.len();
        if n == 0 {
            return out;
        }
        let apply = |set: &[usize]| {
            let mut v = self.vol.clone();
            for i in set {
                let o = &self.open_ops[*i];
                let f = v.entry(o.file.clone()).or_default();
                match Self::pending_of(o) {
                    Pending::Write { off, data, .. } => f.write(off, &data),
                    Pending::SetLen(l) => f.set_len(l),
                }
            }
            v
        };
        let all: Vec<usize> = (0..n).collect();
        out.push(("all".into(), apply(&all), self.dur.clone()));
        if n > 1 {
            for i in 0..n.min(max_toggles) {
                out.push((format!("only{i}"), apply(&[i]), self.dur.clone()));
                let but: Vec<usize> = (0..n).filter(|j| *j != i).collect();
                out.push((format!("allbut{i}"), apply(&but), self.dur.clone()));
            }
        }
        out
    }

    /// Power-loss images at the current point (the fault model of C04): the durable view, plus
    ///   * for in-place page files (meta, ln, bbn, ht): any subset of the unsynced page writes / resizes,
    ///   * for append-style files (wal, rollback segments): the volatile content cut at a page-aligned
    ///     length between nothing-new and everything (a later byte never survives without the earlier
    ///     bytes of its page),
    ///   * files whose directory entry is not durable do not exist.
    pub fn power_images(&self, rng: &mut Rng, budget: usize) -> Vec<(String, View)> {
        let is_append = |name: &str| name == "wal" || name.starts_with("rollback.");
        // volatile view including operations that have begun
        let mut volx = self.vol.clone();
        for o in &self.open_ops {
            let f = volx.entry(o.file.clone()).or_default();
            match Self::pending_of(o) {
                Pending::Write { off, data, .. } => f.write(off, &data),
                Pending::SetLen(l) => f.set_len(l),
            }
        }
        // page files: flattened unsynced operations
        let mut ops: Vec<(String, Pending)> = Vec::new();
        for (f, ps) in &self.pending {
            if is_append(f) {
                continue;
            }
            for p in ps {
                ops.push((f.clone(), p.clone()));
            }
        }
        for o in &self.open_ops {
            if !is_append(&o.file) {
                ops.push((o.file.clone(), Self::pending_of(o)));
            }
        }
        // append files: candidate lengths
        let mut app: Vec<(String, Vec<Option<u64>>)> = Vec::new(); // None = durable content, Some(L) = vol cut at L
        for (name, v) in &volx {
            if !is_append(name) {
                continue;
            }
            let d = self.dur.get(name).cloned().unwrap_or_default();
            if &d == v {
                continue;
            }
            // never cut below what both views agree on: the leading pages that are equal
            let minlen = d.len.min(v.len);
            let mut common = 0u64;
            while (common + 1) * PG <= minlen && d.pages.get(&common) == v.pages.get(&common) {
                common += 1;
            }
            let mut cands: Vec<Option<u64>> = vec![None, Some(v.len)];
            let mut l = common * PG;
            if l == 0 && d.len > 0 && v.len > 0 {
                // a rewrite (truncate + write): the truncation alone may have reached the disk
                cands.push(Some(0));
            }
            l += PG;
            while l < v.len {
                cands.push(Some(l));
                l += PG;
            }
            if cands.len() > 7 {
                let keep: Vec<Option<u64>> = vec![cands[0], cands[1], cands[2], cands[cands.len() / 2], cands[cands.len() - 1]];
                cands = keep;
            }
            app.push((name.clone(), cands));
        }
        let build = |keep: &dyn Fn(usize) -> bool, achoice: &dyn Fn(usize) -> usize| {
            let mut v = self.dur.clone();
            v.retain(|name, _| self.dur_names.contains(name));
            for (i, (f, p)) in ops.iter().enumerate() {
                if !keep(i) || !self.dur_names.contains(f) {
                    continue;
                }
                let img = v.entry(f.clone()).or_default();
                match p {
                    Pending::Write { off, data, .. } => img.write(*off, data),
                    Pending::SetLen(l) => img.set_len(*l),
                }
            }
            for (ai, (name, cands)) in app.iter().enumerate() {
                if !self.dur_names.contains(name) {
                    continue;
                }
                if let Some(l) = cands[achoice(ai) % cands.len()] {
                    let mut img = volx.get(name).cloned().unwrap_or_default();
                    img.set_len(l);
                    v.insert(name.clone(), img);
                }
            }
            v
        };
        let n = ops.len();
        let na = app.len();
        let mut out = vec![("lose-all".to_string(), build(&|_| false, &|_| 0))];
        if n == 0 && na == 0 {
            return out;
        }
        out.push(("keep-all".into(), build(&|_| true, &|_| 1)));
        // single variations
        for i in 0..n {
            if out.len() >= budget {
                break;
            }
            out.push((format!("only{i}"), build(&|j| j == i, &|_| 0)));
            if out.len() < budget {
                out.push((format!("allbut{i}"), build(&|j| j != i, &|_| 1)));
            }
        }
        for ai in 0..na {
            for c in 0..app[ai].1.len() {
                if out.len() >= budget + 4 {
                    break;
                }
                out.push((format!("app{ai}c{c}-rest-kept"), build(&|_| true, &|x| if x == ai { c } else { 1 })));
                out.push((format!("app{ai}c{c}-rest-lost"), build(&|_| false, &|x| if x == ai { c } else { 0 })));
            }
        }
        let mut seen: BTreeSet<String> = BTreeSet::new();
        let mut tries = 0;
        while out.len() < budget && tries < 4 * budget {
            tries += 1;
            let mask: Vec<bool> = (0..n).map(|_| rng.chance(1, 2)).collect();
            let ach: Vec<usize> = (0..na).map(|ai| rng.below(app[ai].1.len() as u64) as usize).collect();
            let label = format!("rnd{}-{:?}", mask.iter().map(|b| if *b { '1' } else { '0' }).collect::<String>(), ach);
            if seen.insert(label.clone()) {
                out.push((label, build(&|i| mask[i], &|ai| ach[ai])));
            }
        }
        out
    }
}
