//! `nvh proofs`: evaluation traces for TrieTrace.tla.
//!
//! For every case (a model map over L-bit keys embedded at the top of the key space) the harness
//!   * commits the map into a real store and asks the real prover for a path proof of every key,
//!   * derives adversarial proof objects from them (the mutation grammar of C08),
//!   * aggregates multi-proofs and mutates those,
//!   * runs the REAL verifiers (nomt_core) on all of them under catch_unwind,
//! and logs each call as one record: the object in symbolic term form plus the real verdicts.
//! TLC then evaluates the transcribed verifiers / the soundness predicates of Trie.tla on every
//! record.  The harness never decides whether a verdict is right.

use crate::concr::{Key, Rng, StoreCfg, ValueTable};
use crate::term::{build, Space, Term, TermTrie};
use crate::watchdog;
use bitvec::prelude::*;
use nomt::hasher::{Blake3Hasher, Sha2Hasher};
use nomt::proof::{
    self, MultiPathProof, MultiProof, PathProof, PathProofTerminal, PathUpdate,
};
use nomt::trie::LeafData;
use nomt::{HashAlgorithm, KeyReadWrite, Nomt, SessionParams};
use nomt_core::trie_pos::TriePosition;
use serde::Deserialize;
use serde_json::{json, Value as J};
use std::collections::{BTreeMap, HashMap};
use std::io::{BufRead, Write};
use std::panic::{catch_unwind, AssertUnwindSafe};
use std::path::{Path, PathBuf};

#[derive(Deserialize, Clone, Debug)]
pub struct Case {
    pub id: u64,
    /// model key length in bits (prefix included)
    pub l: usize,
    /// present keys: [[bits], value]
    pub kv: Vec<(Vec<u8>, String)>,
    /// all keys of the model universe (every query key), as bit vectors of length l
    pub universe: Vec<Vec<u8>>,
    pub vals: Vec<String>,
    #[serde(default)]
    pub cfg: StoreCfg,
    pub vtable: BTreeMap<String, String>,
    #[serde(default)]
    pub seed: u64,
    /// how the proofs are obtained: "committed" | "overlay" | "reopen"
    #[serde(default)]
    pub mode: String,
    /// number of mutants per honest proof (0 = none)
    #[serde(default)]
    pub mutants: usize,
    /// number of multi-proof subsets to try
    #[serde(default)]
    pub multis: usize,
    /// number of update batches to try
    #[serde(default)]
    pub updates: usize,
}

#[derive(Clone, Debug)]
pub enum TTerminal {
    Leaf(Vec<u8>, String),
    Term(Vec<u8>),
}

#[derive(Clone, Debug)]
pub struct TProof {
    pub terminal: TTerminal,
    pub sibs: Vec<Term>,
}

impl TProof {
    fn to_json(&self) -> J {
        let t = match &self.terminal {
            TTerminal::Leaf(k, v) => json!({"kind":"L","key":k,"val":v}),
            TTerminal::Term(p) => json!({"kind":"T","pos":p}),
        };
        json!({"terminal": t, "sibs": self.sibs.iter().map(|s| s.to_json()).collect::<Vec<_>>()})
    }

    fn to_real<H: HashAlgorithm>(&self, sp: &Space) -> PathProof {
        let terminal = match &self.terminal {
            TTerminal::Leaf(k, v) => PathProofTerminal::Leaf(LeafData {
                key_path: sp.real_key(k),
                value_hash: H::hash_value(&sp.value_bytes(k, v)),
            }),
            TTerminal::Term(p) => {
                PathProofTerminal::Terminator(mk_pos(sp.real_key(p), p.len()))
            }
        };
        PathProof {
            terminal,
            siblings: self.sibs.iter().map(|s| sp.eval::<H>(s)).collect(),
        }
    }
}

fn mk_pos(k: Key, depth: usize) -> TriePosition {
    if depth == 0 {
        TriePosition::new()
    } else {
        TriePosition::from_path_and_depth(k, depth as u16)
    }
}

fn bits_of(k: &Key, n: usize) -> Vec<u8> {
    (0..n).map(|i| crate::concr::get_bit(k, i) as u8).collect()
}

/// A real proof from the store, expressed in terms.
fn lift<H: HashAlgorithm>(
    sp: &Space,
    tt: &TermTrie,
    pf: &PathProof,
    foreign: &mut HashMap<[u8; 32], u32>,
    kv: &[(Vec<u8>, String)],
    vals: &[String],
) -> TProof {
    let terminal = match &pf.terminal {
        PathProofTerminal::Leaf(ld) => {
            // identify the leaf: a model key whose real key and value hash match
            let kb = bits_of(&ld.key_path, sp.l);
            let mut found = None;
            if sp.real_key(&kb) == ld.key_path {
                for v in vals {
                    if H::hash_value(&sp.value_bytes(&kb, v)) == ld.value_hash {
                        found = Some(v.clone());
                    }
                }
            }
            let _ = kv;
            TTerminal::Leaf(kb, found.unwrap_or_else(|| "?".to_string()))
        }
        PathProofTerminal::Terminator(pos) => {
            let d = (pos.depth() as usize).min(sp.l);
            TTerminal::Term(pos.path().iter().by_vals().take(d).map(|b| b as u8).collect())
        }
    };
    TProof {
        terminal,
        sibs: pf.siblings.iter().map(|n| tt.term_of(n, foreign)).collect(),
    }
}

fn kv_json(kv: &[(Vec<u8>, String)]) -> J {
    J::Array(kv.iter().map(|(k, v)| json!([k, v])).collect())
}

struct Ctx<'a, H: HashAlgorithm> {
    tt: &'a TermTrie,
    foreign: HashMap<[u8; 32], u32>,
    sp: &'a Space,
    case: &'a Case,
    root: [u8; 32],
    out: &'a mut dyn Write,
    n: u64,
    _m: std::marker::PhantomData<H>,
}

impl<'a, H: HashAlgorithm> Ctx<'a, H> {
    /// run the real path verifier on (proof, key) and log the record
    fn path_record(&mut self, tp: &TProof, key: &[u8], src: &str) -> anyhow::Result<Option<proof::VerifiedPathProof>> {
        let real = tp.to_real::<H>(self.sp);
        let rk = self.sp.real_key(key);
        let l = self.sp.l;
        let root = self.root;
        let res = catch_unwind(AssertUnwindSafe(|| real.verify::<H>(&rk.view_bits::<Msb0>()[..l], root)));
        let mut rec = json!({"k":"path","case":self.case.id,"kv":kv_json(&self.case.kv),"key":key,
                             "proof":tp.to_json(),"src":src});
        let mut verified = None;
        match res {
            Err(_) => {
                rec["verify"] = json!("PANIC");
            }
            Ok(Err(e)) => {
                rec["verify"] = json!(format!("{e:?}"));
            }
            Ok(Ok(v)) => {
                rec["verify"] = json!("Ok");
                let mut cv = Vec::new();
                let mut cn = Vec::new();
                for q in &self.case.universe {
                    let rq = self.sp.real_key(q);
                    for val in &self.case.vals {
                        let leaf = LeafData { key_path: rq, value_hash: H::hash_value(&self.sp.value_bytes(q, val)) };
                        let a = catch_unwind(AssertUnwindSafe(|| v.confirm_value(&leaf)));
                        cv.push(json!({"k":q,"v":val,"ans": match a { Err(_) => "PANIC", Ok(Ok(true)) => "true", Ok(Ok(false)) => "false", Ok(Err(_)) => "OutOfScope" }}));
                    }
                    let a = catch_unwind(AssertUnwindSafe(|| v.confirm_nonexistence(&rq)));
                    cn.push(json!({"k":q,"ans": match a { Err(_) => "PANIC", Ok(Ok(true)) => "true", Ok(Ok(false)) => "false", Ok(Err(_)) => "OutOfScope" }}));
                }
                // "borrowed value" queries: key q claimed to hold the exact value hash of ANOTHER present key k2
                // (true of no map): the answer must never be "true"
                let mut cvx = Vec::new();
                for q in &self.case.universe {
                    for (k2, v2) in &self.case.kv {
                        if k2 == q {
                            continue;
                        }
                        let leaf = LeafData { key_path: self.sp.real_key(q), value_hash: H::hash_value(&self.sp.value_bytes(k2, v2)) };
                        let a = catch_unwind(AssertUnwindSafe(|| v.confirm_value(&leaf)));
                        cvx.push(json!({"k":q,"of":k2,"ans": match a { Err(_) => "PANIC", Ok(Ok(true)) => "true", Ok(Ok(false)) => "false", Ok(Err(_)) => "OutOfScope" }}));
                    }
                }
                rec["cv"] = J::Array(cv);
                rec["cn"] = J::Array(cn);
                rec["cvx"] = J::Array(cvx);
                verified = Some(v);
            }
        }
        writeln!(self.out, "{}", rec)?;
        self.n += 1;
        Ok(verified)
    }
}

fn universe_nodes(tt: &TermTrie, case: &Case) -> Vec<Term> {
    let mut u: Vec<Term> = tt.nodes.values().cloned().collect();
    u.push(Term::T);
    u.push(Term::X(1));
    u.push(Term::X(2));
    for k in &case.universe {
        for v in &case.vals {
            u.push(Term::L(k.clone(), v.clone()));
        }
    }
    u.sort_by_key(|t| format!("{t:?}"));
    u.dedup();
    u
}

fn mutate(rng: &mut Rng, tp: &TProof, uni: &[Term], case: &Case, others: &[TProof]) -> (TProof, String) {
    let mut m = tp.clone();
    let n = m.sibs.len();
    let pick = |rng: &mut Rng| uni[rng.below(uni.len() as u64) as usize].clone();
    match rng.below(8) {
        0 if n > 0 => {
            let i = rng.below(n as u64) as usize;
            m.sibs[i] = pick(rng);
            (m, format!("replace-sib{i}"))
        }
        1 => {
            let j = rng.below(n as u64 + 1) as usize;
            m.sibs.truncate(j);
            (m, format!("truncate{j}"))
        }
        2 => {
            m.sibs.push(pick(rng));
            (m, "extend".into())
        }
        3 if n > 1 => {
            let i = rng.below(n as u64) as usize;
            let j = rng.below(n as u64) as usize;
            m.sibs.swap(i, j);
            (m, format!("swap{i}-{j}"))
        }
        4 => {
            let k = case.universe[rng.below(case.universe.len() as u64) as usize].clone();
            let v = case.vals[rng.below(case.vals.len() as u64) as usize].clone();
            m.terminal = TTerminal::Leaf(k, v);
            (m, "terminal-leaf".into())
        }
        5 => {
            let k = &case.universe[rng.below(case.universe.len() as u64) as usize];
            let d = rng.below(k.len() as u64 + 1) as usize;
            m.terminal = TTerminal::Term(k[..d].to_vec());
            (m, "terminal-term".into())
        }
        6 if !others.is_empty() => {
            let o = &others[rng.below(others.len() as u64) as usize];
            let cut = rng.below(n as u64 + 1) as usize;
            let mut s: Vec<Term> = m.sibs[..cut].to_vec();
            if o.sibs.len() > cut {
                s.extend_from_slice(&o.sibs[cut..]);
            }
            m.sibs = s;
            if rng.chance(1, 2) {
                m.terminal = o.terminal.clone();
            }
            (m, format!("splice{cut}"))
        }
        _ => {
            // sibling insertion in the middle
            let i = rng.below(n as u64 + 1) as usize;
            m.sibs.insert(i, pick(rng));
            (m, format!("insert{i}"))
        }
    }
}

/// the root a path proof hashes up to along `key` (Trie!HashUp)
fn implied_root(tp: &TProof, key: &[u8]) -> Term {
    let mut node = match &tp.terminal {
        TTerminal::Leaf(k, v) => Term::L(k.clone(), v.clone()),
        TTerminal::Term(_) => Term::T,
    };
    for i in (0..tp.sibs.len()).rev() {
        let s = tp.sibs[i].clone();
        node = if key[i] == 1 { Term::I(Box::new(s), Box::new(node)) } else { Term::I(Box::new(node), Box::new(s)) };
    }
    node
}

fn terminal_path(tp: &TProof, key: &[u8]) -> Vec<u8> {
    key[..tp.sibs.len().min(key.len())].to_vec()
}

fn run_case<H: HashAlgorithm>(case: &Case, scratch: &Path, out: &mut dyn Write) -> anyhow::Result<u64> {
    let vt = ValueTable { classes: case.vtable.clone() };
    let sp = Space::new(case.l, case.seed.wrapping_mul(31).wrapping_add(7), vt);
    let tt = build::<H>(&sp, &case.kv);
    let root_term = tt.root();
    let root = sp.eval::<H>(&root_term);
    let mut rng = Rng::new(case.seed ^ 0xABCD);

    // ---- the real store holding the map
    let dir = scratch.join(format!("case{}", case.id));
    let _ = std::fs::remove_dir_all(&dir);
    let mut cfg = case.cfg.clone();
    cfg.rollback = false;
    let nomt = Nomt::<H>::open(cfg.options(&dir))?;
    let mut overlays = Vec::new();
    let mut sorted_kv = case.kv.clone();
    sorted_kv.sort();
    let mk_actuals = |items: &[(Vec<u8>, String)]| -> Vec<(Key, KeyReadWrite)> {
        let mut a: Vec<(Key, KeyReadWrite)> = items
            .iter()
            .map(|(k, v)| (sp.real_key(k), KeyReadWrite::Write(Some(sp.value_bytes(k, v)))))
            .collect();
        a.sort_by(|x, y| x.0.cmp(&y.0));
        a
    };
    match case.mode.as_str() {
        "overlay" => {
            // half committed, the rest in a chain of two overlays
            let n = sorted_kv.len();
            let (a, rest) = sorted_kv.split_at(n / 3);
            let (b, c) = rest.split_at(rest.len() / 2);
            let s = nomt.begin_session(SessionParams::default());
            s.finish(mk_actuals(a))?.commit(&nomt)?;
            let s = nomt.begin_session(SessionParams::default());
            let o1 = s.finish(mk_actuals(b))?.into_overlay();
            let s = nomt.begin_session(SessionParams::default().overlay([&o1]).map_err(|e| anyhow::anyhow!("{e:?}"))?);
            let o2 = s.finish(mk_actuals(c))?.into_overlay();
            overlays.push(o2);
            overlays.push(o1);
        }
        _ => {
            // several commits in pseudo-random split
            let mut rest: Vec<(Vec<u8>, String)> = sorted_kv.clone();
            while !rest.is_empty() {
                let take = 1 + rng.below(rest.len() as u64) as usize;
                let mut batch = Vec::new();
                for _ in 0..take {
                    let i = rng.below(rest.len() as u64) as usize;
                    batch.push(rest.remove(i));
                }
                let s = nomt.begin_session(SessionParams::default());
                s.finish(mk_actuals(&batch))?.commit(&nomt)?;
            }
        }
    }
    let nomt = if case.mode == "reopen" {
        drop(nomt);
        Nomt::<H>::open(cfg.options(&dir))?
    } else {
        nomt
    };
    let params = SessionParams::default()
        .overlay(overlays.iter())
        .map_err(|e| anyhow::anyhow!("{e:?}"))?;
    let sess = nomt.begin_session(params);
    let store_root = sess.prev_root().into_inner();

    let mut ctx: Ctx<H> = Ctx { tt: &tt, foreign: HashMap::new(), sp: &sp, case, root, out, n: 0, _m: std::marker::PhantomData };
    writeln!(ctx.out, "{}", json!({"k":"root","case":case.id,"kv":kv_json(&case.kv),"rootTerm":root_term.to_json(),
                                   "storeRootEqualsTermRoot": store_root == root, "mode": case.mode}))?;
    ctx.n += 1;

    // ---- honest proofs from the real prover (C05)
    let mut foreign = HashMap::new();
    let mut honest: Vec<(Vec<u8>, TProof, PathProof)> = Vec::new();
    for q in &case.universe {
        watchdog::progress(&format!("proofs case {} prove", case.id));
        let rq = sp.real_key(q);
        let pf = sess.prove(rq)?;
        let tp = lift::<H>(&sp, &tt, &pf, &mut foreign, &case.kv, &case.vals);
        // the session's own read, as a cross-check of the committed content
        let read = sess.read(rq)?;
        let expect = case.kv.iter().find(|(k, _)| k == q).map(|(k, v)| sp.value_bytes(k, v));
        if read != expect {
            writeln!(ctx.out, "{}", json!({"k":"readback","case":case.id,"key":q,"ok":false}))?;
        }
        ctx.path_record(&tp, q, "store")?;
        honest.push((q.clone(), tp, pf));
    }

    // ---- adversarial path proofs (C08 / C18)
    let uni = universe_nodes(&tt, case);
    let all_t: Vec<TProof> = honest.iter().map(|h| h.1.clone()).collect();
    for (q, tp, _) in &honest {
        for _ in 0..case.mutants {
            let (m, desc) = mutate(&mut rng, tp, &uni, case, &all_t);
            // verify against its own key and against another key
            ctx.path_record(&m, q, &format!("mut:{desc}"))?;
            if rng.chance(1, 3) {
                let q2 = &case.universe[rng.below(case.universe.len() as u64) as usize];
                ctx.path_record(&m, q2, &format!("mut:{desc}:otherkey"))?;
            }
        }
    }

    // ---- per-path updates (C06/C07: verify_update)
    for u in 0..case.updates {
        watchdog::progress(&format!("proofs case {} update {u}", case.id));
        // choose a set of keys to write; group them by the terminal that covers them
        let mut ops: Vec<(Vec<u8>, Option<String>)> = Vec::new();
        for q in &case.universe {
            if rng.chance(1, 3) {
                let v = if rng.chance(1, 3) { None } else { Some(case.vals[rng.below(case.vals.len() as u64) as usize].clone()) };
                ops.push((q.clone(), v));
            }
        }
        if ops.is_empty() {
            continue;
        }
        ops.sort();
        let malform = if u % 2 == 1 { rng.below(6) + 1 } else { 0 };
        let mut foreign_idx: Option<usize> = None;
        // group by terminal path
        let mut groups: BTreeMap<Vec<u8>, (TProof, Vec<u8>, Vec<(Vec<u8>, Option<String>)>)> = BTreeMap::new();
        for (k, v) in &ops {
            let (hq, tp, _) = honest.iter().find(|(hq, _, _)| hq == k).unwrap();
            let tpath = terminal_path(tp, hq);
            groups.entry(tpath).or_insert_with(|| (tp.clone(), hq.clone(), Vec::new())).2.push((k.clone(), v.clone()));
        }
        let mut ups: Vec<(TProof, Vec<u8>, Vec<(Vec<u8>, Option<String>)>)> = groups.into_values().collect();
        match malform {
            6 => {
                // one path is a proof against ANOTHER root (a sibling replaced: it verifies against the root it
                // hashes up to, not against prev_root); verify_update must answer RootMismatch
                let gi = if ups.len() > 1 { 1 + rng.below(ups.len() as u64 - 1) as usize } else { 0 };
                let n = ups[gi].0.sibs.len();
                if n > 0 {
                    let i = rng.below(n as u64) as usize;
                    let cands: Vec<&Term> = uni.iter().filter(|t| **t != ups[gi].0.sibs[i]).collect();
                    if !cands.is_empty() {
                        ups[gi].0.sibs[i] = cands[rng.below(cands.len() as u64) as usize].clone();
                        foreign_idx = Some(gi);
                    }
                }
            }
            1 if ups.len() > 1 => ups.swap(0, 1),
            2 => {
                if let Some(g) = ups.iter_mut().find(|g| g.2.len() > 1) {
                    g.2.swap(0, 1);
                }
            }
            3 => {
                // an op that is out of scope of its path
                if ups.len() > 1 {
                    let stolen = ups[1].2[0].clone();
                    ups[0].2.push(stolen);
                    ups[0].2.sort();
                }
            }
            4 => {
                ups[0].2.clear();
            }
            5 => {
                // the same key twice in a row
                if let Some(g) = ups.iter_mut().find(|g| !g.2.is_empty()) {
                    let mut d = g.2[0].clone();
                    if d.1.is_none() {
                        d.1 = Some(case.vals[0].clone());
                        g.2[0].1 = Some(case.vals[0].clone());
                    }
                    g.2.insert(1, d);
                }
            }
            _ => {}
        }
        let mut real_ups = Vec::new();
        let mut ups_json = Vec::new();
        let mut ok_all = true;
        for (ui, (tp, key, gops)) in ups.iter().enumerate() {
            let real = tp.to_real::<H>(&sp);
            let rk = sp.real_key(key);
            let vroot = if foreign_idx == Some(ui) { sp.eval::<H>(&implied_root(tp, key)) } else { root };
            match real.verify::<H>(&rk.view_bits::<Msb0>()[..sp.l], vroot) {
                Ok(v) => {
                    real_ups.push(PathUpdate {
                        inner: v,
                        ops: gops.iter().map(|(k, v)| (sp.real_key(k), v.as_ref().map(|v| H::hash_value(&sp.value_bytes(k, v))))).collect(),
                    });
                }
                Err(_) => ok_all = false,
            }
            let mut uj = json!({"key":key,"proof":tp.to_json(),
                "ops": gops.iter().map(|(k,v)| json!([k, v.clone().unwrap_or("Nil".into())])).collect::<Vec<_>>()});
            if foreign_idx == Some(ui) {
                uj["foreign"] = json!(true);
            }
            ups_json.push(uj);
        }
        if !ok_all {
            continue;
        }
        let res = catch_unwind(AssertUnwindSafe(|| proof::verify_update::<H>(root, &real_ups)));
        // the harness' claim of the updated map and whether the real result is its reference root
        let mut newkv: BTreeMap<Vec<u8>, String> = case.kv.iter().cloned().collect();
        for (_, _, gops) in &ups {
            for (k, v) in gops {
                match v {
                    Some(v) => {
                        newkv.insert(k.clone(), v.clone());
                    }
                    None => {
                        newkv.remove(k);
                    }
                }
            }
        }
        let newkv_vec: Vec<(Vec<u8>, String)> = newkv.into_iter().collect();
        let new_root = sp.eval::<H>(&build::<H>(&sp, &newkv_vec).root());
        let (rs, matches) = match res {
            Err(_) => ("PANIC".to_string(), false),
            Ok(Err(e)) => (format!("{e:?}"), false),
            Ok(Ok(r)) => ("Ok".to_string(), r == new_root),
        };
        writeln!(ctx.out, "{}", json!({"k":"update","case":case.id,"kv":kv_json(&case.kv),"ups":ups_json,
            "res":rs,"newKv":kv_json(&newkv_vec),"rootMatches":matches,"malform":malform}))?;
        ctx.n += 1;
    }

    // ---- multi-proofs (C07) and their mutants (C08 / C18)
    for mi in 0..case.multis {
        watchdog::progress(&format!("proofs case {} multi {mi}", case.id));
        // odd rounds: a random subset of the keys; even rounds: every key under a random sub-trie (a complete
        // sub-trie is covered, what lies beside it is known by sibling hashes only)
        let mut chosen: Vec<&(Vec<u8>, TProof, PathProof)> = if mi % 2 == 1 {
            honest.iter().filter(|_| rng.chance(1, 2)).collect()
        } else {
            let anchor = &honest[rng.below(honest.len() as u64) as usize].0;
            let d = 1 + rng.below(anchor.len() as u64 - 1) as usize;
            honest.iter().filter(|h| h.0[..d] == anchor[..d]).collect()
        };
        if chosen.is_empty() {
            chosen.push(&honest[rng.below(honest.len() as u64) as usize]);
        }
        // distinct terminals, ordered by terminal path
        let mut by_path: BTreeMap<Vec<u8>, &(Vec<u8>, TProof, PathProof)> = BTreeMap::new();
        for h in chosen {
            by_path.entry(terminal_path(&h.1, &h.0)).or_insert(h);
        }
        let sel: Vec<&(Vec<u8>, TProof, PathProof)> = by_path.values().cloned().collect();
        let keys_json: Vec<J> = sel.iter().map(|h| json!(h.0)).collect();
        let paths_json: Vec<J> = by_path.keys().map(|p| json!(p)).collect();
        let pfs: Vec<PathProof> = sel.iter().map(|h| h.2.clone()).collect();
        let mp = match catch_unwind(AssertUnwindSafe(|| MultiProof::from_path_proofs(pfs.clone()))) {
            Ok(mp) => mp,
            Err(_) => {
                writeln!(ctx.out, "{}", json!({"k":"multi","case":case.id,"kv":kv_json(&case.kv),"keys":keys_json,"paths":paths_json,"verify":"PANIC-from_path_proofs"}))?;
                ctx.n += 1;
                continue;
            }
        };
        multi_record::<H>(&mut ctx, &mp, &keys_json, &paths_json, "honest", &honest, store_root, &mut rng, true)?;
        // mutants
        for _ in 0..case.mutants.min(12) {
            let (mm, desc) = mutate_multi::<H>(&mut rng, &mp, &sp, &uni, case);
            multi_record::<H>(&mut ctx, &mm, &keys_json, &paths_json, &format!("mut:{desc}"), &honest, store_root, &mut rng, false)?;
        }
    }
    let n = ctx.n;
    drop(sess);
    drop(overlays);
    drop(nomt);
    let _ = std::fs::remove_dir_all(&dir);
    Ok(n)
}

/// The MultiProof object itself in term form, for Trie!VerifyMulti.
fn lift_multi<H: HashAlgorithm>(ctx: &mut Ctx<H>, mp: &MultiProof) -> J {
    let sp = ctx.sp;
    let mut paths = Vec::new();
    for p in &mp.paths {
        let t = match &p.terminal {
            PathProofTerminal::Leaf(ld) => {
                let kb = bits_of(&ld.key_path, sp.l);
                let mut val = "?".to_string();
                if sp.real_key(&kb) == ld.key_path {
                    for v in &ctx.case.vals {
                        if H::hash_value(&sp.value_bytes(&kb, v)) == ld.value_hash {
                            val = v.clone();
                        }
                    }
                }
                json!({"kind":"L","key":kb,"val":val})
            }
            PathProofTerminal::Terminator(pos) => {
                let d = (pos.depth() as usize).min(sp.l);
                let bits: Vec<u8> = pos.path().iter().by_vals().take(d).map(|b| b as u8).collect();
                json!({"kind":"T","pos":bits})
            }
        };
        paths.push(json!({"terminal": t, "depth": p.depth}));
    }
    let tt = ctx.tt;
    let sibs: Vec<J> = mp.siblings.iter().map(|n| tt.term_of(n, &mut ctx.foreign).to_json()).collect();
    json!({"paths": paths, "sibs": sibs})
}

fn ans3(a: std::thread::Result<Result<bool, proof::KeyOutOfScope>>) -> &'static str {
    match a {
        Err(_) => "PANIC",
        Ok(Ok(true)) => "true",
        Ok(Ok(false)) => "false",
        Ok(Err(_)) => "OutOfScope",
    }
}

fn multi_record<H: HashAlgorithm>(
    ctx: &mut Ctx<H>,
    mp: &MultiProof,
    keys_json: &[J],
    paths_json: &[J],
    src: &str,
    honest: &[(Vec<u8>, TProof, PathProof)],
    store_root: [u8; 32],
    rng: &mut Rng,
    with_update: bool,
) -> anyhow::Result<()> {
    let sp = ctx.sp;
    let case = ctx.case;
    let root = ctx.root;
    let res = catch_unwind(AssertUnwindSafe(|| proof::verify_multi_proof::<H>(mp, root)));
    let mpj = lift_multi::<H>(ctx, mp);
    let mut rec = json!({"k":"multi","case":case.id,"kv":kv_json(&case.kv),"keys":keys_json,"paths":paths_json,"src":src,
                         "npaths": mp.paths.len(), "nsibs": mp.siblings.len(), "storeRootOk": store_root == root, "mp": mpj});
    match res {
        Err(_) => {
            rec["verify"] = json!("PANIC");
        }
        Ok(Err(e)) => {
            rec["verify"] = json!(format!("{e:?}"));
        }
        Ok(Ok(v)) => {
            rec["verify"] = json!("Ok");
            let mut qs = Vec::new();
            for q in &case.universe {
                let rq = sp.real_key(q);
                let idx = catch_unwind(AssertUnwindSafe(|| v.find_index_for(&rq)));
                let idx_ok = matches!(idx, Ok(Ok(_)));
                for val in &case.vals {
                    let leaf = LeafData { key_path: rq, value_hash: H::hash_value(&sp.value_bytes(q, val)) };
                    let a = ans3(catch_unwind(AssertUnwindSafe(|| v.confirm_value(&leaf))));
                    let ai = if let Ok(Ok(i)) = idx { ans3(catch_unwind(AssertUnwindSafe(|| v.confirm_value_with_index(&leaf, i)))) } else { "OutOfScope" };
                    qs.push(json!({"q":"value","k":q,"v":val,"ans":a,"ansIdx":ai}));
                }
                let a = ans3(catch_unwind(AssertUnwindSafe(|| v.confirm_nonexistence(&rq))));
                let ai = if let Ok(Ok(i)) = idx { ans3(catch_unwind(AssertUnwindSafe(|| v.confirm_nonexistence_with_index(&rq, i)))) } else { "OutOfScope" };
                qs.push(json!({"q":"nonexist","k":q,"ans":a,"ansIdx":ai,"idxOk":idx_ok}));
                // borrowed-value queries (see path records)
                for (k2, v2) in &case.kv {
                    if k2 == q {
                        continue;
                    }
                    let leaf = LeafData { key_path: rq, value_hash: H::hash_value(&sp.value_bytes(k2, v2)) };
                    let a = ans3(catch_unwind(AssertUnwindSafe(|| v.confirm_value(&leaf))));
                    let ai = if let Ok(Ok(i)) = idx { ans3(catch_unwind(AssertUnwindSafe(|| v.confirm_value_with_index(&leaf, i)))) } else { "OutOfScope" };
                    qs.push(json!({"q":"valuex","k":q,"of":k2,"ans":a,"ansIdx":ai}));
                }
            }
            rec["queries"] = J::Array(qs);
            if with_update {
                // an in-scope sorted write set, verified through the multi-proof and through the paths
                let mut ops: Vec<(Vec<u8>, Option<String>)> = Vec::new();
                for q in &case.universe {
                    let rq = sp.real_key(q);
                    if matches!(v.find_index_for(&rq), Ok(_)) && rng.chance(1, 2) {
                        let val = if rng.chance(1, 3) { None } else { Some(case.vals[rng.below(case.vals.len() as u64) as usize].clone()) };
                        ops.push((q.clone(), val));
                    }
                }
                ops.sort();
                // sometimes a malformed operation list: unsorted, duplicated key, or a key out of scope
                let umal = if rng.chance(1, 4) && !ops.is_empty() { 1 + rng.below(3) } else { 0 };
                if umal != 0 {
                    let mut mops = ops.clone();
                    match umal {
                        1 if mops.len() > 1 => mops.swap(0, 1),
                        2 => {
                            let mut d = mops[0].clone();
                            d.1 = Some(case.vals[0].clone());
                            mops[0].1 = Some(case.vals[0].clone());
                            mops.insert(1, d);
                        }
                        _ => {
                            if let Some(q) = case.universe.iter().find(|q| v.find_index_for(&sp.real_key(q)).is_err()) {
                                mops.push((q.clone(), Some(case.vals[0].clone())));
                                mops.sort();
                            }
                        }
                    }
                    if mops != ops {
                        let real_mops: Vec<(Key, Option<[u8; 32]>)> = mops.iter()
                            .map(|(k, v)| (sp.real_key(k), v.as_ref().map(|v| H::hash_value(&sp.value_bytes(k, v))))).collect();
                        let r = catch_unwind(AssertUnwindSafe(|| proof::verify_multi_proof_update::<H>(&v, real_mops)));
                        rec["updBad"] = json!({"kind": umal, "res": match r { Err(_) => "PANIC".to_string(), Ok(Err(e)) => format!("{e:?}"), Ok(Ok(_)) => "Ok".to_string() }});
                    }
                }
                // one in-scope sorted write set checked through the multi-proof and through the per-path verifier
                let check_update = |ops: &Vec<(Vec<u8>, Option<String>)>| -> J {
                    let real_ops: Vec<(Key, Option<[u8; 32]>)> = ops.iter()
                        .map(|(k, v)| (sp.real_key(k), v.as_ref().map(|v| H::hash_value(&sp.value_bytes(k, v))))).collect();
                    let mres = catch_unwind(AssertUnwindSafe(|| proof::verify_multi_proof_update::<H>(&v, real_ops.clone())));
                    // the same through per-path verify_update
                    let mut groups: BTreeMap<Vec<u8>, (usize, Vec<(Key, Option<[u8; 32]>)>)> = BTreeMap::new();
                    for ((k, _), ro) in ops.iter().zip(real_ops.iter()) {
                        let hi = honest.iter().position(|(hq, _, _)| hq == k).unwrap();
                        let tpath = terminal_path(&honest[hi].1, &honest[hi].0);
                        groups.entry(tpath).or_insert((hi, Vec::new())).1.push(*ro);
                    }
                    let mut ups = Vec::new();
                    for (_, (hi, gops)) in groups {
                        let rk = sp.real_key(&honest[hi].0);
                        if let Ok(vp) = honest[hi].2.verify::<H>(&rk.view_bits::<Msb0>()[..sp.l], root) {
                            ups.push(PathUpdate { inner: vp, ops: gops });
                        }
                    }
                    let pres = catch_unwind(AssertUnwindSafe(|| proof::verify_update::<H>(root, &ups)));
                    let mut newkv: BTreeMap<Vec<u8>, String> = case.kv.iter().cloned().collect();
                    for (k, v) in ops {
                        match v {
                            Some(v) => { newkv.insert(k.clone(), v.clone()); }
                            None => { newkv.remove(k); }
                        }
                    }
                    let newkv_vec: Vec<(Vec<u8>, String)> = newkv.into_iter().collect();
                    let new_root = sp.eval::<H>(&build::<H>(sp, &newkv_vec).root());
                    let (ms, mroot) = match mres { Err(_) => ("PANIC".to_string(), None), Ok(Err(e)) => (format!("{e:?}"), None), Ok(Ok(r)) => ("Ok".to_string(), Some(r)) };
                    let (ps, proot) = match pres { Err(_) => ("PANIC".to_string(), None), Ok(Err(e)) => (format!("{e:?}"), None), Ok(Ok(r)) => ("Ok".to_string(), Some(r)) };
                    json!({"ops": ops.iter().map(|(k,v)| json!([k, v.clone().unwrap_or("Nil".into())])).collect::<Vec<_>>(),
                        "multiRes": ms, "pathRes": ps, "newKv": kv_json(&newkv_vec),
                        "multiRootMatches": mroot == Some(new_root), "pathRootMatches": proot == Some(new_root)})
                };
                if !ops.is_empty() {
                    rec["upd"] = check_update(&ops);
                }
                // structured write sets: every in-scope key under a random sub-trie is deleted (compaction across
                // emptied sub-tries next to terminators), alone or together with a few other operations
                let in_scope: Vec<&Vec<u8>> = case.universe.iter().filter(|q| v.find_index_for(&sp.real_key(q)).is_ok()).collect();
                let mut upds = Vec::new();
                for _ in 0..3 {
                    if in_scope.is_empty() {
                        break;
                    }
                    let anchor = in_scope[rng.below(in_scope.len() as u64) as usize];
                    let d = 1 + rng.below(anchor.len() as u64 - 1) as usize;
                    let mut wops: Vec<(Vec<u8>, Option<String>)> = Vec::new();
                    for q in &in_scope {
                        if q[..d] == anchor[..d] {
                            wops.push(((*q).clone(), None));
                        } else if rng.chance(1, 5) {
                            let val = if rng.chance(1, 2) { None } else { Some(case.vals[rng.below(case.vals.len() as u64) as usize].clone()) };
                            wops.push(((*q).clone(), val));
                        }
                    }
                    wops.sort();
                    if !wops.is_empty() {
                        upds.push(check_update(&wops));
                    }
                }
                if !upds.is_empty() {
                    rec["upds"] = J::Array(upds);
                }
            }
        }
    }
    writeln!(ctx.out, "{}", rec)?;
    ctx.n += 1;
    Ok(())
}

fn mutate_multi<H: HashAlgorithm>(rng: &mut Rng, mp: &MultiProof, sp: &Space, uni: &[Term], case: &Case) -> (MultiProof, String) {
    let mut m = mp.clone();
    let np = m.paths.len();
    let ns = m.siblings.len();
    let pick = |rng: &mut Rng| sp.eval::<H>(&uni[rng.below(uni.len() as u64) as usize]);
    match rng.below(10) {
        0 if ns > 0 => {
            let i = rng.below(ns as u64) as usize;
            m.siblings[i] = pick(rng);
            (m, format!("replace-sib{i}"))
        }
        1 if ns > 0 => {
            let j = rng.below(ns as u64) as usize;
            m.siblings.truncate(j);
            (m, format!("truncate-sibs{j}"))
        }
        2 => {
            m.siblings.push(pick(rng));
            (m, "extend-sibs".into())
        }
        3 if np > 0 => {
            let i = rng.below(np as u64) as usize;
            m.paths[i].depth += 1;
            (m, format!("depth+1@{i}"))
        }
        4 if np > 0 => {
            let i = rng.below(np as u64) as usize;
            m.paths[i].depth = m.paths[i].depth.saturating_sub(1);
            (m, format!("depth-1@{i}"))
        }
        5 if np > 1 => {
            let i = rng.below(np as u64) as usize;
            m.paths.remove(i);
            (m, format!("drop-path{i}"))
        }
        6 if np > 0 => {
            let i = rng.below(np as u64) as usize;
            let p = m.paths[i].clone();
            m.paths.insert(i, p);
            (m, format!("dup-path{i}"))
        }
        7 if np > 1 => {
            m.paths.swap(0, np - 1);
            (m, "swap-paths".into())
        }
        8 if np > 0 => {
            let i = rng.below(np as u64) as usize;
            let k = &case.universe[rng.below(case.universe.len() as u64) as usize];
            let v = &case.vals[rng.below(case.vals.len() as u64) as usize];
            m.paths[i].terminal = PathProofTerminal::Leaf(LeafData { key_path: sp.real_key(k), value_hash: H::hash_value(&sp.value_bytes(k, v)) });
            (m, format!("terminal-leaf@{i}"))
        }
        _ => {
            if np > 0 {
                let i = rng.below(np as u64) as usize;
                let k = &case.universe[rng.below(case.universe.len() as u64) as usize];
                // a position shorter than a model key: at full model length a position would compare EQUAL to a
                // leaf's key in Trie.tla, while the real leaf path (256 bits) is strictly longer - an artefact of the
                // embedding, not a behaviour of the verifier
                let d = rng.below(k.len() as u64) as usize;
                m.paths[i].terminal = PathProofTerminal::Terminator(mk_pos(sp.real_key(&k[..d]), d));
                (m, format!("terminal-term@{i}"))
            } else {
                m.paths.push(MultiPathProof { terminal: PathProofTerminal::Terminator(TriePosition::new()), depth: 0 });
                (m, "add-root-path".into())
            }
        }
    }
}

pub fn main(args: &[String]) -> anyhow::Result<()> {
    // nvh proofs <cases.ndjson> <out.ndjson> <scratch>
    anyhow::ensure!(args.len() >= 3, "usage: nvh proofs <cases> <out> <scratch>");
    let cases = std::fs::File::open(&args[0])?;
    let mut out = std::io::BufWriter::new(std::fs::File::create(&args[1])?);
    let scratch = PathBuf::from(&args[2]);
    std::fs::create_dir_all(&scratch)?;
    watchdog::start(120, Some(PathBuf::from(&args[1]).with_extension("hang")));
    // panics of the code under test are data here; keep stderr quiet
    if std::env::var("NVH_DEBUG").is_err() {
        std::panic::set_hook(Box::new(|_| {}));
    }
    let mut total = 0;
    for line in std::io::BufReader::new(cases).lines() {
        let line = line?;
        if line.trim().is_empty() {
            continue;
        }
        let case: Case = serde_json::from_str(&line)?;
        total += match case.cfg.hasher.as_str() {
            "sha2" => run_case::<Sha2Hasher>(&case, &scratch, &mut out)?,
            _ => run_case::<Blake3Hasher>(&case, &scratch, &mut out)?,
        };
        out.flush()?;
    }
    eprintln!("nvh proofs: {total} records");
    Ok(())
}
