------------------------------ MODULE NomtConc ------------------------------
(***************************************************************************)
(* Threads, locks, worker pools and the directory lock of NOMT.            *)
(*                                                                         *)
(*   access lock   a write-preferring readers/writer lock (parking_lot     *)
(*                 RwLock, lib.rs:206): every session holds it shared from *)
(*                 begin_session to finish/drop; commit and rollback take  *)
(*                 it exclusively; a WAITING writer blocks new readers.    *)
(*   shared root   a mutex-protected root, compared and swapped under the  *)
(*                 exclusive lock (lib.rs:682).                            *)
(*   rollback pool a thread pool of RbPool threads (rollback/mod.rs:96): a *)
(*                 session's reverse-delta worker occupies one thread from *)
(*                 the moment it starts until the session is finished or   *)
(*                 dropped; finish waits for its own worker to run.        *)
(*   flock         an exclusive advisory lock on the directory taken by    *)
(*                 open and released by drop AFTER the I/O pool has been   *)
(*                 drained (store/mod.rs:309); the kernel releases it when *)
(*                 the holder dies.                                        *)
(*                                                                         *)
(* Each thread repeatedly performs one of: begin a session, read through a *)
(* session, finish it into a changeset, commit a changeset (blocking or    *)
(* not), roll back.  Versions are integers; a changeset carries the        *)
(* version it was prepared on.                                             *)
(***************************************************************************)
EXTENDS Naturals, FiniteSets, Sequences, TLC

CONSTANTS
    Threads,         \* thread identifiers
    MaxOps,          \* bound on operations per thread
    MaxSessPerThread,\* how many sessions one thread may hold at once
    RbPool,          \* size of the rollback worker pool (2 in the code)
    WithRollback,    \* sessions record rollback deltas (occupy a pool thread)
    Openers,         \* processes trying to open the directory (C20)
    Drop             \* dropped guards (mutants)

G(x) == x \in Drop

VARIABLES
    version,     \* number of successful commits so far (the committed state)
    readers,     \* set of session ids holding the access lock shared
    writer,      \* thread holding it exclusively, or "none"
    waitingW,    \* set of threads waiting for the exclusive lock
    sessions,    \* [id |-> [owner, base, worker: "queued"|"running"|"none"]] for live sessions
    changesets,  \* set of [owner, base] records: finished, uncommitted
    pc,          \* [thread |-> "idle" | "wantRead" | "wantWrite" | "inWrite" | "wantFinish"]
    arg,         \* [thread |-> the changeset / session the pending call is about]
    ops,         \* [thread |-> operations performed]
    nextSid,
    commits,     \* ghost: sequence of [base, by] of successful commits
    reads,       \* ghost: set of [sid, base, saw] observations
    \* C20
    holder,      \* opener holding the flock, or "none"
    ostate,      \* [opener |-> "idle" | "open" | "draining" | "dead"]
    ioActive,    \* set of openers whose background writers are still running
    touched,     \* ghost: openers that modified files while not holding the lock
    stray        \* openers with a background task (the warm-up worker of an abandoned session) that owns a clone of the store

vars == <<version, readers, writer, waitingW, sessions, changesets, pc, arg, ops, nextSid, commits, reads,
          holder, ostate, ioActive, touched, stray>>

NoArg == [owner |-> "none", base |-> 0]

Init ==
    /\ version = 0 /\ readers = {} /\ writer = "none" /\ waitingW = {}
    /\ sessions = <<>> /\ changesets = {}
    /\ pc = [t \in Threads |-> "idle"] /\ arg = [t \in Threads |-> NoArg] /\ ops = [t \in Threads |-> 0]
    /\ nextSid = 1 /\ commits = <<>> /\ reads = {}
    /\ holder = "none" /\ ostate = [o \in Openers |-> "idle"] /\ ioActive = {} /\ touched = {} /\ stray = {}

Sids == DOMAIN sessions
Mine(t) == {s \in Sids : sessions[s].owner = t}
Running == {s \in Sids : sessions[s].worker = "running"}
Idle(t) == pc[t] = "idle" /\ ops[t] < MaxOps
Bump(t) == ops' = [ops EXCEPT ![t] = @ + 1]

UnchangedLock == UNCHANGED <<holder, ostate, ioActive, touched, stray>>

(***************************************************************************)
(* Sessions                                                                *)
(***************************************************************************)
\* begin_session: request the shared lock (lib.rs:312)
BeginRequest(t) ==
    /\ Idle(t) /\ Cardinality(Mine(t)) < MaxSessPerThread
    /\ pc' = [pc EXCEPT ![t] = "wantRead"] /\ Bump(t)
    /\ UNCHANGED <<version, readers, writer, waitingW, sessions, changesets, arg, nextSid, commits, reads>> /\ UnchangedLock

\* granted when no writer holds it and (write preference) none is waiting
BeginGrant(t) ==
    /\ pc[t] = "wantRead"
    /\ writer = "none"
    /\ G("write-preference") \/ waitingW = {}
    /\ LET s == nextSid
           \* the reverse-delta worker starts if a pool thread is free, else it is queued
           w == IF ~WithRollback THEN "none" ELSE IF Cardinality(Running) < RbPool THEN "running" ELSE "queued"
       IN /\ sessions' = (s :> [owner |-> t, base |-> version, worker |-> w]) @@ sessions
          /\ readers' = readers \cup {s}
          /\ nextSid' = nextSid + 1
    /\ pc' = [pc EXCEPT ![t] = "idle"]
    /\ UNCHANGED <<version, writer, waitingW, changesets, arg, ops, commits, reads>> /\ UnchangedLock

\* a queued worker gets a pool thread as soon as one is free
WorkerStart(s) ==
    /\ s \in Sids /\ sessions[s].worker = "queued" /\ Cardinality(Running) < RbPool
    /\ sessions' = [sessions EXCEPT ![s].worker = "running"]
    /\ UNCHANGED <<version, readers, writer, waitingW, changesets, pc, arg, ops, nextSid, commits, reads>> /\ UnchangedLock

\* C15: every read of a session reflects the state at its start
Read(t, s) ==
    /\ Idle(t) /\ s \in Mine(t)
    /\ reads' = reads \cup {[sid |-> s, base |-> sessions[s].base, saw |-> version]}
    /\ Bump(t)
    /\ UNCHANGED <<version, readers, writer, waitingW, sessions, changesets, pc, arg, nextSid, commits>> /\ UnchangedLock

Remove(s) == [x \in Sids \ {s} |-> sessions[x]]

\* finish waits for the session's own reverse-delta worker, which must be running (rollback/mod.rs:415):
\* the call blocks (the thread can do nothing else) until a pool thread has picked the worker up
FinishRequest(t, s) ==
    /\ pc[t] = "idle" /\ s \in Mine(t)          \* releasing is never cut off by the operation bound
    /\ pc' = [pc EXCEPT ![t] = "wantFinish"] /\ arg' = [arg EXCEPT ![t] = [owner |-> t, base |-> s]]
    /\ UNCHANGED <<version, readers, writer, waitingW, sessions, changesets, ops, nextSid, commits, reads>> /\ UnchangedLock

FinishGrant(t) ==
    /\ pc[t] = "wantFinish"
    /\ LET s == arg[t].base IN
       /\ sessions[s].worker \in {"running", "none"}
       /\ changesets' = changesets \cup {[owner |-> t, base |-> sessions[s].base, id |-> s]}
       /\ sessions' = Remove(s) /\ readers' = readers \ {s}
    /\ pc' = [pc EXCEPT ![t] = "idle"] /\ arg' = [arg EXCEPT ![t] = NoArg]
    /\ UNCHANGED <<version, writer, waitingW, ops, nextSid, commits, reads>> /\ UnchangedLock

\* dropping a session also joins its worker: blocks while the worker is still queued
DropSession(t, s) ==
    /\ pc[t] = "idle" /\ s \in Mine(t)
    /\ sessions[s].worker \in {"running", "none"}
    /\ sessions' = Remove(s) /\ readers' = readers \ {s}
    /\ Bump(t)
    /\ UNCHANGED <<version, writer, waitingW, changesets, pc, arg, nextSid, commits, reads>> /\ UnchangedLock

(***************************************************************************)
(* Writers                                                                 *)
(***************************************************************************)
\* a thread never waits for the exclusive lock while holding a session itself (self-deadlock, driver contract)
CommitRequest(t, c) ==
    /\ Idle(t) /\ c \in changesets /\ c.owner = t /\ Mine(t) = {}
    /\ pc' = [pc EXCEPT ![t] = "wantWrite"] /\ arg' = [arg EXCEPT ![t] = c]
    /\ waitingW' = waitingW \cup {t}
    /\ changesets' = changesets \ {c}
    /\ Bump(t)
    /\ UNCHANGED <<version, readers, writer, sessions, nextSid, commits, reads>> /\ UnchangedLock

WriteGrant(t) ==
    /\ pc[t] = "wantWrite" /\ writer = "none"
    /\ G("writer-excludes-readers") \/ readers = {}
    /\ writer' = t /\ waitingW' = waitingW \ {t}
    /\ pc' = [pc EXCEPT ![t] = "inWrite"]
    /\ UNCHANGED <<version, readers, sessions, changesets, arg, ops, nextSid, commits, reads>> /\ UnchangedLock

\* under the exclusive lock: compare the previous root, swap, sync, release (lib.rs:682-707)
CommitBody(t) ==
    /\ pc[t] = "inWrite" /\ writer = t
    /\ IF G("root-check") \/ arg[t].base = version
       THEN /\ version' = version + 1
            /\ commits' = Append(commits, [base |-> arg[t].base, by |-> t])
       ELSE UNCHANGED <<version, commits>>
    /\ writer' = "none" /\ pc' = [pc EXCEPT ![t] = "idle"] /\ arg' = [arg EXCEPT ![t] = NoArg]
    /\ UNCHANGED <<readers, waitingW, sessions, changesets, ops, nextSid, reads>> /\ UnchangedLock

\* try_commit_nonblocking: one atomic attempt (lib.rs:716)
TryCommit(t, c) ==
    /\ Idle(t) /\ c \in changesets /\ c.owner = t
    /\ IF writer = "none" /\ readers = {}
       THEN /\ changesets' = changesets \ {c}
            /\ IF c.base = version
               THEN version' = version + 1 /\ commits' = Append(commits, [base |-> c.base, by |-> t])
               ELSE UNCHANGED <<version, commits>>
       ELSE UNCHANGED <<changesets, version, commits>>      \* handed back
    /\ Bump(t)
    /\ UNCHANGED <<readers, writer, waitingW, sessions, pc, arg, nextSid, reads>> /\ UnchangedLock

ThreadNext ==
    \E t \in Threads :
        \/ BeginRequest(t) \/ BeginGrant(t) \/ WriteGrant(t) \/ CommitBody(t)
        \/ FinishGrant(t)
        \/ \E s \in Sids : Read(t, s) \/ FinishRequest(t, s) \/ DropSession(t, s)
        \/ \E c \in changesets : CommitRequest(t, c) \/ TryCommit(t, c)

(***************************************************************************)
(* The directory lock (C20)                                                *)
(***************************************************************************)
Open(o) ==
    /\ ostate[o] = "idle" /\ holder = "none"
    /\ holder' = o /\ ostate' = [ostate EXCEPT ![o] = "open"] /\ ioActive' = ioActive \cup {o}
    /\ UNCHANGED <<version, readers, writer, waitingW, sessions, changesets, pc, arg, ops, nextSid, commits, reads, touched, stray>>

\* refused: touches nothing
OpenRefused(o) ==
    /\ ostate[o] = "idle" /\ holder # "none"
    /\ UNCHANGED vars

\* background writers of a live handle write
BackgroundWrite(o) ==
    /\ o \in ioActive
    /\ touched' = IF holder = o THEN touched ELSE touched \cup {o}
    /\ UNCHANGED <<version, readers, writer, waitingW, sessions, changesets, pc, arg, ops, nextSid, commits, reads,
                   holder, ostate, ioActive, stray>>

\* drop: first drain the I/O pool, then release the lock (store/mod.rs:303-311)
\* (store/mod.rs Drop for Shared runs when the LAST clone of the store goes away: if a background task still owns
\* one, the user's drop returns at once - state "gone" - and the drain + unlock happen when that task ends)
CloseStart(o) ==
    /\ ostate[o] = "open"
    /\ ostate' = [ostate EXCEPT ![o] = IF o \in stray THEN "gone" ELSE "draining"]
    /\ UNCHANGED <<version, readers, writer, waitingW, sessions, changesets, pc, arg, ops, nextSid, commits, reads,
                   holder, ioActive, touched, stray>>

\* a session is dropped without being finished while its warm-up worker runs: merkle::WarmUpHandle::drop stops and
\* joins the worker (guard "join-abandoned-worker"); without the guard the worker lives on until it notices
AbandonSession(o) ==
    /\ ostate[o] = "open" /\ o \notin stray
    /\ G("join-abandoned-worker")
    /\ stray' = stray \cup {o}
    /\ UNCHANGED <<version, readers, writer, waitingW, sessions, changesets, pc, arg, ops, nextSid, commits, reads,
                   holder, ostate, ioActive, touched>>

StrayExit(o) ==
    /\ o \in stray
    /\ stray' = stray \ {o}
    /\ ostate' = [ostate EXCEPT ![o] = IF @ = "gone" THEN "draining" ELSE @]
    /\ UNCHANGED <<version, readers, writer, waitingW, sessions, changesets, pc, arg, ops, nextSid, commits, reads,
                   holder, ioActive, touched>>

Drained(o) ==
    /\ ostate[o] = "draining" /\ o \in ioActive
    /\ ioActive' = ioActive \ {o}
    /\ UNCHANGED <<version, readers, writer, waitingW, sessions, changesets, pc, arg, ops, nextSid, commits, reads,
                   holder, ostate, touched, stray>>

Unlock(o) ==
    /\ ostate[o] = "draining" /\ holder = o
    /\ G("unlock-after-drain") \/ o \notin ioActive
    /\ holder' = "none" /\ ostate' = [ostate EXCEPT ![o] = "idle"]
    /\ UNCHANGED <<version, readers, writer, waitingW, sessions, changesets, pc, arg, ops, nextSid, commits, reads,
                   ioActive, touched, stray>>

\* process death: the kernel closes every descriptor: writers stop and the lock is released together
Kill(o) ==
    /\ ostate[o] \in {"open", "draining", "gone"} /\ holder = o
    /\ holder' = "none" /\ ostate' = [ostate EXCEPT ![o] = "dead"] /\ ioActive' = ioActive \ {o} /\ stray' = stray \ {o}
    /\ UNCHANGED <<version, readers, writer, waitingW, sessions, changesets, pc, arg, ops, nextSid, commits, reads, touched>>

LockNext == \E o \in Openers : Open(o) \/ OpenRefused(o) \/ BackgroundWrite(o) \/ CloseStart(o) \/ Drained(o)
                               \/ Unlock(o) \/ Kill(o) \/ AbandonSession(o) \/ StrayExit(o)

\* everything a thread started has ended
AllQuiet == \A t \in Threads : pc[t] = "idle" /\ Mine(t) = {}
Terminal == AllQuiet /\ UNCHANGED vars

Next == ThreadNext \/ (\E s \in Sids : WorkerStart(s)) \/ LockNext \/ Terminal

Spec == Init /\ [][Next]_vars

(***************************************************************************)
(* Properties                                                              *)
(***************************************************************************)
\* C15: a session's reads always see the version it started on
SnapshotReads == \A r \in reads : r.saw = r.base

\* C15: readers and the writer exclude each other
Exclusion == writer # "none" => readers = {}

\* C15: exactly the changesets whose base matches win: the successful commits form a chain
WritersSerialize == \A i \in 1..Len(commits) : commits[i].base = i - 1
NoLostCommit == version = Len(commits)

\* C20
AtMostOneHandle == Cardinality({o \in Openers : ostate[o] \in {"open", "draining"}}) <= 1
NobodyWritesUnlocked == touched = {}
\* once the user's drop of the last handle has returned, nothing of that handle holds the directory any more
DroppedMeansFree == \A o \in Openers : ostate[o] = "gone" => holder # o

\* deadlock freedom is TLC's deadlock check: Terminal is the only way to stop
=============================================================================
