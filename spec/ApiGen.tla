------------------------------- MODULE ApiGen -------------------------------
(***************************************************************************)
(* Behaviour generator: NomtApi with a history variable recording, for     *)
(* every step, the call and the outcome the specification prescribes.      *)
(* Run with `tlc -simulate`; each behaviour is printed once, as JSON, when *)
(* it reaches GenDepth steps.  The harness replays the calls against the   *)
(* real store; ApiTrace.tla then validates what the store actually did.    *)
(***************************************************************************)
EXTENDS NomtApi, Json

CONSTANTS GenDepth,
          Lean      \* BOOLEAN: bias the walk towards commits (drops only when slots are full,
                    \*   refused rollbacks only at the boundary)

VARIABLE beh

gvars == <<vars, beh>>

Step(A, rec) == A /\ beh' = Append(beh, rec)

GenInit == Init /\ beh = <<>>

GenNext ==
    \/ \E s \in SessIds, c \in Chains :
          Step(BeginSession(s, c), [a |-> "Begin", s |-> s, chain |-> c, res |-> "Ok"])
    \/ \E c \in Chains, v \in {"Incomplete", "NotAncestor"} :
          Step(BuildOnChainRefused(c, v), [a |-> "Begin", s |-> 0, chain |-> c, res |-> v])
    \/ \E s \in SessIds : Step(DropSession(s) /\ (Lean => FreeSess = {} \/ FreeFin = {}),
                                [a |-> "DropSession", s |-> s])
    \/ \E s \in SessIds, f \in FinIds, b \in Batches :
          Step(Finish(s, f, b), [a |-> "Finish", s |-> s, f |-> f, w |-> b])
    \/ \E f \in FinIds :
          \/ Step(DropFinished(f) /\ (Lean => FreeFin = {}), [a |-> "DropFinished", f |-> f])
          \/ Step(Commit(f), [a |-> "Commit", f |-> f, res |-> "Ok"])
          \/ Step(CommitStale(f), [a |-> "Commit", f |-> f, res |-> "Stale"])
          \/ Step(CommitPoisoned(f), [a |-> "Commit", f |-> f, res |-> "Poisoned"])
          \/ Step(TryCommitDone(f), [a |-> "TryCommit", f |-> f, res |-> "Ok"])
          \/ Step(TryCommitHandedBack(f), [a |-> "TryCommit", f |-> f, res |-> "HandedBack"])
          \/ Step(TryCommitStale(f), [a |-> "TryCommit", f |-> f, res |-> "Stale"])
          \/ \E o \in OvlIds : Step(IntoOverlay(f, o), [a |-> "IntoOverlay", f |-> f, o |-> o])
    \/ \E o \in OvlIds :
          \/ Step(DropOverlay(o), [a |-> "DropOverlay", o |-> o])
          \/ Step(OverlayCommit(o), [a |-> "OverlayCommit", o |-> o, res |-> "Ok"])
          \/ Step(OverlayCommitParentNotCommitted(o),
                  [a |-> "OverlayCommit", o |-> o, res |-> "ParentNotCommitted"])
          \/ Step(OverlayCommitStale(o), [a |-> "OverlayCommit", o |-> o, res |-> "Stale"])
          \/ Step(OverlayTryCommitDone(o), [a |-> "OverlayTryCommit", o |-> o, res |-> "Ok"])
          \/ Step(OverlayTryCommitHandedBack(o),
                  [a |-> "OverlayTryCommit", o |-> o, res |-> "HandedBack"])
    \/ \E n \in 1..(MaxLog + 2) :
          \/ Step(Rollback(n), [a |-> "Rollback", n |-> n, res |-> "Ok"])
          \/ Step(RollbackRefused(n) /\ RollbackOn /\ (Lean => n = Len(memLog) + 1 /\ seqn > 0),
                  [a |-> "Rollback", n |-> n, res |-> "NotEnough"])
          \/ Step(RollbackRefused(n) /\ ~RollbackOn, [a |-> "Rollback", n |-> n, res |-> "Disabled"])
    \/ Step(Close, [a |-> "Close"])
    \/ Step(Reopen, [a |-> "Reopen"])

GenSpec == GenInit /\ [][GenNext]_gvars

\* printed exactly once per simulated behaviour
Emit == Len(beh) = GenDepth => PrintT(<<"BEH", ToJson(beh)>>)
=============================================================================
