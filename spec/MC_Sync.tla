------------------------------ MODULE MC_Sync ------------------------------
EXTENDS NomtSync
MC_CowFiles == {"ln", "bbn"}
MC_Pages == {1, 2, 3}
MC_LiveOld == [f \in MC_CowFiles |-> IF f = "ln" THEN {1, 2} ELSE {1}]
MC_KeepOld == [f \in MC_CowFiles |-> IF f = "ln" THEN {1} ELSE {}]
MC_Need == [f \in MC_CowFiles |-> 1]
MC_Beyond == [f \in MC_CowFiles |-> IF f = "ln" THEN {3} ELSE {}]
MC_HtPages == {1, 2}
MC_HtChanged == {1}
=============================================================================
