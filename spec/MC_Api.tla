------------------------------- MODULE MC_Api -------------------------------
EXTENDS NomtApi
\* exhaustive small configuration; constants are set in the .cfg files
SegEqMem == segLog = memLog
=============================================================================
