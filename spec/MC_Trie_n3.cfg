SPECIFICATION Spec
CONSTANTS
  N = 3
  Vals = {"a", "b"}
  MaxKeys = 8
INVARIANTS Completeness RootInjectiveLocally Soundness
CHECK_DEADLOCK FALSE
