-------------------------------- MODULE Trie --------------------------------
(***************************************************************************)
(* The binary Merkle-Patricia trie of NOMT (docs/nomt_specification.md,    *)
(* section "Nodes") and its proofs (core/src/proof/path_proof.rs,          *)
(* core/src/proof/multi_proof.rs), over bit-string keys of any length.     *)
(*                                                                         *)
(* Hashes are modelled by injective constructors (terms):                  *)
(*     <<"T">>            the terminator                                   *)
(*     <<"L", k, v>>      the leaf for key k with value v                  *)
(*     <<"I", l, r>>      the internal node over l and r                   *)
(*     <<"X", i>>         a foreign node (anything a prover may invent)    *)
(* Equality of terms stands for equality of hashes (collision resistance   *)
(* and domain separation of leaf / internal / terminator nodes).           *)
(*                                                                         *)
(* A map is a function whose domain is the set of present keys.            *)
(***************************************************************************)
EXTENDS Naturals, Sequences, FiniteSets, TLC

TNode == <<"T">>
Leaf(k, v) == <<"L", k, v>>
Int(l, r) == <<"I", l, r>>

Prefix(k, n) == SubSeq(k, 1, n)
HasPrefix(k, p) == Len(p) <= Len(k) /\ Prefix(k, Len(p)) = p
Under(kv, p) == {k \in DOMAIN kv : HasPrefix(k, p)}
Flip(b) == 1 - b

(***************************************************************************)
(* The canonical trie: an empty sub-trie is the terminator, a sub-trie     *)
(* holding a single pair is that pair's leaf (as close to the root as      *)
(* possible), anything else is an internal node over its two halves.       *)
(***************************************************************************)
RECURSIVE NodeAt(_, _)
NodeAt(kv, p) ==
    LET S == Under(kv, p) IN
    IF S = {} THEN TNode
    ELSE IF Cardinality(S) = 1 THEN LET k == CHOOSE x \in S : TRUE IN Leaf(k, kv[k])
    ELSE Int(NodeAt(kv, Append(p, 0)), NodeAt(kv, Append(p, 1)))

Root(kv) == NodeAt(kv, <<>>)

\* depth of the terminal node met when looking up k
TermDepth(kv, k) ==
    CHOOSE d \in 0..Len(k) :
        /\ Cardinality(Under(kv, Prefix(k, d))) <= 1
        /\ \A e \in 0..(d - 1) : Cardinality(Under(kv, Prefix(k, e))) > 1

\* The honest path proof for k (merkle/mod.rs:327 prove): the terminal and the siblings in
\* ascending order of depth.
PathProofOf(kv, k) ==
    LET d == TermDepth(kv, k)
        p == Prefix(k, d)
        S == Under(kv, p)
    IN [terminal |-> IF S = {} THEN [kind |-> "T", pos |-> p]
                     ELSE LET k2 == CHOOSE x \in S : TRUE IN [kind |-> "L", key |-> k2, val |-> kv[k2]],
        sibs |-> [i \in 1..d |-> NodeAt(kv, Append(Prefix(k, i - 1), Flip(k[i])))]]

TermNode(t) == IF t.kind = "L" THEN Leaf(t.key, t.val) ELSE TNode

\* hash_path (path_proof.rs:108): fold the siblings bottom-up along the path bits
RECURSIVE HashUp(_, _, _)
HashUp(node, bits, sibs) ==
    IF Len(sibs) = 0 THEN node
    ELSE LET n == Len(sibs)
             b == bits[n]
             s == sibs[n]
             m == IF b = 1 THEN Int(s, node) ELSE Int(node, s)
         IN HashUp(m, bits, SubSeq(sibs, 1, n - 1))

(***************************************************************************)
(* PathProof::verify (path_proof.rs:75)                                    *)
(***************************************************************************)
VerifyPath(pf, key, root) ==
    IF Len(pf.sibs) > Len(key) THEN [t |-> "TooManySiblings"]
    ELSE LET path == Prefix(key, Len(pf.sibs)) IN
         IF HashUp(TermNode(pf.terminal), path, pf.sibs) = root
         THEN [t |-> "Ok", path |-> path, root |-> root,
               leaf |-> IF pf.terminal.kind = "L" THEN <<pf.terminal.key, pf.terminal.val>> ELSE <<>>]
         ELSE [t |-> "RootMismatch"]

InScope(vp, k) == HasPrefix(k, vp.path)

\* VerifiedPathProof::confirm_value (path_proof.rs:185): "true" / "false" / "OutOfScope"
ConfirmValue(vp, k, v) ==
    IF ~InScope(vp, k) THEN "OutOfScope"
    ELSE IF vp.leaf = <<k, v>> THEN "true" ELSE "false"

\* VerifiedPathProof::confirm_nonexistence (path_proof.rs:196)
ConfirmNonexistence(vp, k) ==
    IF ~InScope(vp, k) THEN "OutOfScope"
    ELSE IF vp.leaf = <<>> THEN "true"
    ELSE IF vp.leaf[1] # k THEN "true" ELSE "false"

(***************************************************************************)
(* What a confirmed statement means, evaluated against the map (C08).      *)
(***************************************************************************)
ValueStatementTrue(kv, k, v, answer) ==
    CASE answer = "true"  -> k \in DOMAIN kv /\ kv[k] = v
      [] answer = "false" -> ~(k \in DOMAIN kv /\ kv[k] = v)
      [] OTHER -> TRUE
NonexistenceStatementTrue(kv, k, answer) ==
    CASE answer = "true"  -> k \notin DOMAIN kv
      [] answer = "false" -> k \in DOMAIN kv
      [] OTHER -> TRUE

(***************************************************************************)
(* Updates.  ops is a sequence of <<key, value-or-"Nil">> pairs.           *)
(***************************************************************************)
Nil == "Nil"
OpKeys(ops) == {ops[i][1] : i \in 1..Len(ops)}
LastOp(ops, k) == ops[CHOOSE j \in 1..Len(ops) : ops[j][1] = k /\ \A m \in (j + 1)..Len(ops) : ops[m][1] # k][2]
ApplyOps(kv, ops) ==
    LET touched == OpKeys(ops)
        dels == {k \in touched : LastOp(ops, k) = Nil}
    IN [k \in ((DOMAIN kv \cup touched) \ dels) |-> IF k \in touched THEN LastOp(ops, k) ELSE kv[k]]

\* lexicographic order on bit strings (a proper prefix sorts first)
RECURSIVE BitLess(_, _)
BitLess(a, b) ==
    IF Len(a) = 0 \/ Len(b) = 0 THEN Len(a) < Len(b)
    ELSE IF a[1] # b[1] THEN a[1] < b[1]
    ELSE BitLess(Tail(a), Tail(b))

\* the precondition checks of verify_update (path_proof.rs:267-305), in the code's order.
\* ups is a sequence of [vp: verified path, ops: sequence of <<key, val>>]
RECURSIVE UpdatePre(_, _, _)
UpdatePre(ups, root, i) ==
    IF i > Len(ups) THEN "Ok"
    ELSE LET u == ups[i] IN
         IF u.vp.root # root THEN "RootMismatch"
         ELSE IF i > 1 /\ ~BitLess(ups[i - 1].vp.path, u.vp.path) THEN "PathsOutOfOrder"
         ELSE IF Len(u.ops) = 0 THEN "PathWithoutOps"
         ELSE LET bad == {j \in 1..Len(u.ops) :
                            \/ (j > 1 /\ ~BitLess(u.ops[j - 1][1], u.ops[j][1]))
                            \/ ~HasPrefix(u.ops[j][1], u.vp.path)}
              IN IF bad = {} THEN UpdatePre(ups, root, i + 1)
                 ELSE LET j == CHOOSE x \in bad : \A y \in bad : x <= y IN
                      IF j > 1 /\ ~BitLess(u.ops[j - 1][1], u.ops[j][1]) THEN "OpsOutOfOrder"
                      ELSE "OpOutOfScope"

(***************************************************************************)
(* Multi-proofs (core/src/proof/multi_proof.rs).                           *)
(* A path proof for aggregation carries its terminal, its siblings and the *)
(* terminal's own path `tpath` (PathProofTerminal::path: the full key of a *)
(* leaf, the position bits of a terminator).                               *)
(***************************************************************************)
TPath(t) == IF t.kind = "L" THEN t.key ELSE t.pos

Select(s, Test(_)) ==
    LET F[i \in 0..Len(s)] == IF i = 0 THEN <<>> ELSE IF Test(s[i]) THEN Append(F[i - 1], s[i]) ELSE F[i - 1]
    IN F[Len(s)]

\* MultiProof::from_path_proofs (:172): recursive bisection of the ordered path proofs.  d = bits consumed.
RECURSIVE MultiFromRange(_, _)
MultiFromRange(pfs, d) ==
    IF Len(pfs) = 1
    THEN [paths |-> <<[terminal |-> pfs[1].terminal, depth |-> Len(pfs[1].sibs)]>>,
          sibs |-> SubSeq(pfs[1].sibs, d + 1, Len(pfs[1].sibs))]
    ELSE IF TPath(pfs[1].terminal)[d + 1] # TPath(pfs[Len(pfs)].terminal)[d + 1]
    THEN LET L == MultiFromRange(Select(pfs, LAMBDA x : TPath(x.terminal)[d + 1] = 0), d + 1)
             R == MultiFromRange(Select(pfs, LAMBDA x : TPath(x.terminal)[d + 1] = 1), d + 1)
         IN [paths |-> L.paths \o R.paths, sibs |-> L.sibs \o R.sibs]
    ELSE LET rest == MultiFromRange(pfs, d + 1)
         IN [paths |-> rest.paths, sibs |-> <<pfs[1].sibs[d + 1]>> \o rest.sibs]

MultiFrom(pfs) == IF Len(pfs) = 0 THEN [paths |-> <<>>, sibs |-> <<>>] ELSE MultiFromRange(pfs, 0)

SharedBits(a, b) ==
    LET n == IF Len(a) < Len(b) THEN Len(a) ELSE Len(b)
        D == {i \in 1..n : a[i] # b[i]}
    IN IF D = {} THEN n ELSE (CHOOSE i \in D : \A j \in D : i <= j) - 1

\* verify_range (:460).  Result: [t |-> "Ok", node, used] or [t |-> "Malformed"] where the Rust code indexes
\* or subtracts without a guard (C18: the real function must return an error there, not panic).
RECURSIVE VerifyRange(_, _, _)
VerifyRange(start, paths, sibs) ==
    IF Len(paths) = 0 THEN [t |-> "Ok", node |-> TNode, used |-> 0]
    ELSE IF Len(paths) = 1 THEN
        LET p == paths[1] tp == TPath(p.terminal) IN
        IF p.depth < start \/ Len(tp) < p.depth \/ Len(sibs) < p.depth - start THEN [t |-> "Malformed"]
        ELSE LET u == p.depth - start IN
             [t |-> "Ok", used |-> u,
              node |-> HashUp(TermNode(p.terminal), SubSeq(tp, start + 1, start + u), SubSeq(sibs, 1, u))]
    ELSE
        LET a == TPath(paths[1].terminal) b == TPath(paths[Len(paths)].terminal) IN
        IF Len(a) < start \/ Len(b) < start THEN [t |-> "Malformed"]
        ELSE
        LET common == SharedBits(SubSeq(a, start + 1, Len(a)), SubSeq(b, start + 1, Len(b)))
            clen == start + common
            ustart == clen + 1
        IN IF \E i \in 1..Len(paths) : Len(TPath(paths[i].terminal)) < ustart THEN [t |-> "Malformed"]
           ELSE IF Len(sibs) < common THEN [t |-> "Malformed"]
           ELSE
           LET ones == {i \in 1..Len(paths) : TPath(paths[i].terminal)[ustart] = 1}
               \* the binary search returns the first index holding a 1 (the list is sorted)
               idx == IF ones = {} THEN Len(paths) + 1 ELSE CHOOSE i \in ones : \A j \in ones : i <= j
               L == VerifyRange(ustart, SubSeq(paths, 1, idx - 1), SubSeq(sibs, common + 1, Len(sibs)))
           IN IF idx = 1 \/ idx = Len(paths) + 1 THEN [t |-> "Malformed"]
              ELSE IF L.t # "Ok" THEN L
              ELSE IF Len(sibs) < common + L.used THEN [t |-> "Malformed"]
              ELSE LET Rr == VerifyRange(ustart, SubSeq(paths, idx, Len(paths)),
                                         SubSeq(sibs, common + L.used + 1, Len(sibs)))
                   IN IF Rr.t # "Ok" THEN Rr
                      ELSE [t |-> "Ok", used |-> common + L.used + Rr.used,
                            node |-> HashUp(Int(L.node, Rr.node), SubSeq(a, start + 1, clen), SubSeq(sibs, 1, common))]

\* multi_proof::verify (:419)
VerifyMulti(mp, root) ==
    IF \E i \in 2..Len(mp.paths) : ~BitLess(TPath(mp.paths[i - 1].terminal), TPath(mp.paths[i].terminal))
    THEN "PathsOutOfOrder"
    ELSE LET r == VerifyRange(0, mp.paths, mp.sibs) IN
         IF r.t # "Ok" THEN r.t
         ELSE IF r.node # root THEN "RootMismatch"
         ELSE IF r.used # Len(mp.sibs) THEN "TooManySiblings"
         ELSE "Ok"
=============================================================================
