------------------------------- MODULE Bitbox -------------------------------
(***************************************************************************)
(* The on-disk hash table of merkle pages (bitbox/mod.rs): open addressing *)
(* with triangular probing, tombstones, and an occupancy counter.          *)
(*   Insert  (allocate_bucket, :659) takes the first EMPTY or TOMBSTONE     *)
(*           bucket of the page's probe sequence; gives up after Limit      *)
(*           probes with "exhausted".                                       *)
(*   Clear   (:199) turns the page's bucket into a tombstone.               *)
(*   Lookup  (PageLoader::probe, :565) walks the probe sequence, skipping   *)
(*           tombstones and foreign pages, and stops at the page or at the  *)
(*           first EMPTY bucket.                                            *)
(***************************************************************************)
EXTENDS Naturals, FiniteSets, TLC

CONSTANTS B,        \* number of buckets
          PageIds,  \* page identifiers
          H,        \* [PageIds -> 0..B-1] the hash
          Limit,    \* probes before allocate_bucket gives up
          MaxClears \* bound on the number of Clear steps (state constraint)

VARIABLES bucket,    \* [0..B-1 -> {"E", "T"} \cup PageIds]
          occupied,  \* the counter reported as hash-table utilisation
          clears

vars == <<bucket, occupied, clears>>

Probe(p, i) == (H[p] + (i * (i + 1)) \div 2) % B
Stored == {bucket[b] : b \in 0..(B - 1)} \ {"E", "T"}

Init == bucket = [b \in 0..(B - 1) |-> "E"] /\ occupied = 0 /\ clears = 0

FreeSlot(p, i) == bucket[Probe(p, i)] \in {"E", "T"}

Insert(p) ==
    /\ p \notin Stored
    /\ \E i \in 0..(Limit - 1) :
         /\ FreeSlot(p, i) /\ \A j \in 0..(i - 1) : ~FreeSlot(p, j)
         /\ bucket' = [bucket EXCEPT ![Probe(p, i)] = p]
    /\ occupied' = occupied + 1
    /\ UNCHANGED clears

\* bucket exhaustion: reported, nothing changes (C14)
InsertExhausted(p) ==
    /\ p \notin Stored
    /\ \A i \in 0..(Limit - 1) : ~FreeSlot(p, i)
    /\ UNCHANGED vars

Clear(p) ==
    /\ p \in Stored /\ clears < MaxClears
    /\ \E b \in 0..(B - 1) : bucket[b] = p /\ bucket' = [bucket EXCEPT ![b] = "T"]
    /\ occupied' = occupied - 1
    /\ clears' = clears + 1

Next == \E p \in PageIds : Insert(p) \/ InsertExhausted(p) \/ Clear(p)
Spec == Init /\ [][Next]_vars

\* the lookup as the code performs it: the index at which it stops, or -1 if it never stops
\* (within B*B probes triangular probing has cycled)
Horizon == 2 * B
LookupFinds(p) == \E i \in 0..Horizon : bucket[Probe(p, i)] = p /\ \A j \in 0..(i - 1) : bucket[Probe(p, j)] # "E"
LookupStops(p) == \E i \in 0..Horizon : bucket[Probe(p, i)] \in {"E", p}

\* C16: every stored page is found by its probe sequence before any empty bucket, and is stored once
ReachableOnce ==
    /\ \A p \in Stored : LookupFinds(p)
    /\ \A p \in Stored : Cardinality({b \in 0..(B - 1) : bucket[b] = p}) = 1

\* C19: the reported occupancy is the number of full buckets
OccupancyTruthful == occupied = Cardinality({b \in 0..(B - 1) : bucket[b] \notin {"E", "T"}})

\* C10 / C16: a lookup of ANY page terminates.  This FAILS once no empty bucket is left on a probe
\* sequence (tombstones are never turned back into empty buckets): finding F8.
LookupTerminates == \A p \in PageIds : LookupStops(p)
=============================================================================
