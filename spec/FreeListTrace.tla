--------------------------- MODULE FreeListTrace ---------------------------
(***************************************************************************)
(* Conformance of the REAL free list with FreeList.tla (spec -> code as a  *)
(* prediction): every record holds two consecutive decoder snapshots of    *)
(* one value file (ln or bbn) of the real store,                           *)
(*     a, b : [bump, live (pages in use), flp (the free list page by page, *)
(*            head first, each <<page number, items>>)]                    *)
(* at most one sync apart.  From a and the sets of pages that became live  *)
(* / stopped being live, FreeList!Finish predicts the list after the sync: *)
(* the page numbers of its pages, how many items each holds, the set of    *)
(* items and the bump pointer must be exactly what the decoder found in b. *)
(* The number of allocations is the number of pages that became live plus  *)
(* e pages that were allocated and released again within the sync (e is    *)
(* searched in 0..MaxWaste - with many commit workers there are dozens;    *)
(* they must be exactly the allocated pages that did not become live).     *)
(***************************************************************************)
EXTENDS FreeList, Json, IOUtils, TLCExt

CONSTANT MaxWaste

Rec == ndJsonDeserialize(IOEnv.TRACE)
VARIABLE l

\* decoder's list is head first; FreeList's portions have the head last
PortionsOf(flp) == [i \in 1..Len(flp) |-> [pn |-> flp[Len(flp) + 1 - i][1], pns |-> flp[Len(flp) + 1 - i][2]]]
FlOf(s) == [portions |-> PortionsOf(s.flp), released |-> <<>>]
Shape(f) == [i \in 1..Len(f.portions) |-> <<f.portions[i].pn, Len(f.portions[i].pns)>>]
SeqSet(q) == {q[i] : i \in 1..Len(q)}

PredictedBy(a, b, e) ==
    LET fa == FlOf(a)
        fb == FlOf(b)
        new == SeqSet(b.live) \ SeqSet(a.live)
        gone == SeqSet(a.live) \ SeqSet(b.live)
        n == Cardinality(new) + e
        d == Discard(fa, n, <<>>)
        bumps == n - Len(d.taken)
        taken == SeqSet(d.taken) \cup {a.bump + j - 1 : j \in 1..bumps}
        wasted == taken \ new
    IN /\ new \subseteq taken
       /\ Cardinality(wasted) = e
       /\ LET r == Finish(fa, a.bump, n, SetToSeq(gone \cup wasted)) IN
          /\ r.bump = b.bump
          /\ Shape(r.fl) = Shape(fb)
          /\ Entries(r.fl) = Entries(fb)
          /\ r.leftover = <<>>

RecOk(r) ==
    \/ (r.a.bump = r.b.bump /\ r.a.flp = r.b.flp /\ SeqSet(r.a.live) = SeqSet(r.b.live))     \* no sync in between
    \/ \E e \in 0..MaxWaste : PredictedBy(r.a, r.b, e)

\* (the state machine of FreeList is not used here: its variables are parked)
TInit == l = 1 /\ Init
TNext == /\ l <= Len(Rec)
         /\ IF RecOk(Rec[l]) THEN TRUE ELSE PrintT(<<"BAD-RECORD", l>>)
         /\ l' = l + 1
         /\ UNCHANGED vars
TSpec == TInit /\ [][TNext]_<<l, vars>>

Finished ==
    LET d == TLCGet("stats").diameter IN
    IF d - 1 = Len(Rec) THEN PrintT(<<"TRACE-COMPLETE", Len(Rec)>>)
    ELSE Print(<<"TRACE-INCOMPLETE", d>>, FALSE)
=============================================================================
