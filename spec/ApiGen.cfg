SPECIFICATION GenSpec
CONSTANTS
  Keys = {"k1", "k2", "k3"}
  Vals = {"v1", "v2"}
  MaxLog = 2
  RollbackOn = TRUE
  MaxOvl = 3
  MaxFin = 2
  MaxSess = 2
  MaxSeqn = 100
  Faults = FALSE
  AllowUngrounded = FALSE
  GenDepth = 24
  Lean = TRUE
INVARIANT Emit
CHECK_DEADLOCK FALSE
