------------------------------- MODULE Seglog -------------------------------
(***************************************************************************)
(* The rollback log on disk: nomt/src/seglog/mod.rs (SegmentedLog, open /  *)
(* Recovery), nomt/src/seglog/segment_rw.rs and the part of                *)
(* nomt/src/rollback/mod.rs that drives it (commit, truncate,              *)
(* writeout_start, writeout_end) together with the manifest ("meta") live  *)
(* range written by store/sync.rs between the two.                         *)
(*                                                                         *)
(* One action per file-system operation (create, append header, append     *)
(* payload, unlink, set_len, meta write), because the process can die      *)
(* between any two of them - also while the recovery itself unlinks and    *)
(* truncates.  fsyncs are not modelled here (that is NomtSync / SyncTrace: *)
(* C04); this module decides what a PROCESS CRASH at any instant can do to *)
(* the log (C03, C09 "no sequence of commits and rollbacks makes the store *)
(* fail to reopen", C10).                                                  *)
(*                                                                         *)
(* Ghosts: `truth` is the stack of deltas of the committed history (commit *)
(* pushes, rollback pops), `dtruth` its value at the last meta write,      *)
(* `avail` the number of newest deltas the store promises to serve (commit: *)
(* +1 up to MaxLen, rollback(n): -n), `davail` its value at that point.     *)
(* Every record carries a unique version so that a record id that          *)
(* is used again after a rollback cannot be confused with its stale twin.  *)
(***************************************************************************)
EXTENDS Naturals, Sequences, FiniteSets, TLC

CONSTANTS Cap,        \* size of a segment file (in 4 KiB units) at which the next append starts a new one (max_segment_size)
          Sizes,      \* sizes (in 4 KiB units) a record can have
          MaxLen,     \* max_rollback_log_len
          MaxRec,     \* bound: record ids
          MaxSeg,     \* bound: segment ids
          MaxVer,     \* bound: number of appends in a behaviour
          MaxCrash,   \* bound: process crashes in a behaviour
          Drop        \* set of guard names switched off (mutants): "desc-unlink", "meta-before-prune", "append-before-meta"

VARIABLES
    exists,     \* set of segment ids that have a file
    content,    \* [1..MaxSeg -> Seq([id, ver, whole, units])]   records in each file; whole = FALSE: header only
    meta,       \* <<start, end>> live range in the manifest
    up,         \* the log is open in this process
    segs,       \* in-memory: Seq([id, min, max]) oldest first, last = head
    sLive, eLive,   \* in-memory live range of the SegmentedLog
    writer,     \* head_segment_writer is Some
    wcount,     \* the writer's file_size in 4 KiB units
    ring,       \* Rollback::in_memory.log : Seq([id, ver])
    pend,       \* pending_truncate: None or a record id (0 = nil)
    pc,         \* program counter of the running call
    tmp,        \* its local variables
    truth, dtruth, avail, davail,   \* ghosts (see above)
    ver, crashes,
    failure     \* "" or the error message class of a call that must not fail

vars == <<exists, content, meta, up, segs, sLive, eLive, writer, wcount, ring, pend, pc, tmp,
          truth, dtruth, avail, davail, ver, crashes, failure>>

SegIds == 1..MaxSeg
NoTmp == [k |-> "none"]
None == 99999    \* Option::None for record ids
G(g) == g \notin Drop

Last(s) == s[Len(s)]
Front(s) == SubSeq(s, 1, Len(s) - 1)
Min2(a, b) == IF a < b THEN a ELSE b
SetToSortedSeq(S) ==   \* ascending
    LET RECURSIVE go(_, _)
        go(T, acc) == IF T = {} THEN acc
                      ELSE LET m == CHOOSE x \in T : \A y \in T : x <= y IN go(T \ {m}, Append(acc, m))
    IN go(S, <<>>)
IsSuffix(a, b) == Len(a) <= Len(b) /\ SubSeq(b, Len(b) - Len(a) + 1, Len(b)) = a

Init ==
    /\ exists = {} /\ content = [i \in SegIds |-> <<>>]
    /\ meta = <<0, 0>>
    /\ up = TRUE /\ segs = <<>> /\ sLive = 0 /\ eLive = 0 /\ writer = FALSE /\ wcount = 0
    /\ ring = <<>> /\ pend = None
    /\ pc = "idle" /\ tmp = NoTmp
    /\ truth = <<>> /\ dtruth = <<>> /\ avail = 0 /\ davail = 0
    /\ ver = 0 /\ crashes = 0 /\ failure = ""

Fail(msg) ==
    /\ failure' = msg /\ pc' = "failed"
    /\ UNCHANGED <<exists, content, meta, up, segs, sLive, eLive, writer, wcount, ring, pend, tmp, truth, dtruth, avail, davail, ver, crashes>>

-----------------------------------------------------------------------------
(* Nomt::commit  ->  Rollback::commit  ->  SegmentedLog::append             *)

\* append, step 1: start a new segment when there is no writer or the head is full
BeginCommit ==
    /\ pc = "idle" /\ up /\ pend = None
    /\ ver < MaxVer /\ eLive < MaxRec
    /\ LET rid == eLive + 1 IN
       IF (~writer) \/ wcount >= Cap
       THEN LET nid == IF segs = <<>> THEN 1 ELSE Last(segs).id + 1 IN
            /\ nid <= MaxSeg
            /\ IF nid \in exists
               THEN Fail("append: segment file exists")       \* create_new(true) fails
               ELSE /\ exists' = exists \cup {nid}
                    /\ content' = [content EXCEPT ![nid] = <<>>]
                    /\ segs' = Append(segs, [id |-> nid, min |-> rid, max |-> rid])
                    /\ writer' = TRUE /\ wcount' = 0
                    /\ pc' = "append_hdr" /\ tmp' = [k |-> "append", rid |-> rid]
                    /\ UNCHANGED <<meta, up, sLive, eLive, ring, pend, truth, dtruth, avail, davail, ver, crashes, failure>>
       ELSE /\ pc' = "append_hdr" /\ tmp' = [k |-> "append", rid |-> rid]
            /\ UNCHANGED <<exists, content, meta, up, segs, sLive, eLive, writer, wcount, ring, pend, truth, dtruth, avail, davail, ver, crashes, failure>>

AppendHeader ==
    /\ pc = "append_hdr"
    /\ LET h == Last(segs).id IN
       content' = [content EXCEPT ![h] = Append(@, [id |-> tmp.rid, ver |-> ver + 1, whole |-> FALSE, units |-> 0])]
    /\ ver' = ver + 1
    /\ pc' = "append_pay"
    /\ UNCHANGED <<exists, meta, up, segs, sLive, eLive, writer, wcount, ring, pend, tmp, truth, dtruth, avail, davail, crashes, failure>>

\* payload + set_len + fsync, then the in-memory bookkeeping of append and Rollback::commit
AppendPayloadU(u) ==
    /\ pc = "append_pay"
    /\ LET h == Last(segs).id
           n == Len(content[h]) IN
       /\ content' = [content EXCEPT ![h][n].whole = TRUE, ![h][n].units = u]
       /\ eLive' = tmp.rid
       /\ sLive' = IF sLive = 0 THEN tmp.rid ELSE sLive
       /\ segs' = [segs EXCEPT ![Len(segs)].min = IF @ = 0 THEN tmp.rid ELSE @, ![Len(segs)].max = tmp.rid]
       /\ wcount' = wcount + u
       /\ ring' = Append(ring, [id |-> tmp.rid, ver |-> ver])
       /\ truth' = Append(truth, [id |-> tmp.rid, ver |-> ver])
    /\ pc' = "sync_start" /\ tmp' = NoTmp
    /\ avail' = Min2(avail + 1, MaxLen)
    /\ UNCHANGED <<exists, meta, up, writer, pend, dtruth, davail, ver, crashes, failure>>

AppendPayload == \E u \in Sizes : AppendPayloadU(u)

-----------------------------------------------------------------------------
(* Nomt::rollback(n): Rollback::truncate (in memory), then the same sync    *)
BeginRollback(n) ==
    /\ pc = "idle" /\ up /\ pend = None
    /\ n >= 1 /\ n <= Len(ring)
    /\ LET keep == Len(ring) - n
           earliest == ring[keep + 1].id IN
       /\ ring' = SubSeq(ring, 1, keep)
       /\ pend' = IF keep = 0 THEN 0 ELSE earliest - 1
    /\ truth' = SubSeq(truth, 1, Len(truth) - n)
    /\ pc' = "sync_start"
    /\ avail' = IF avail >= n THEN avail - n ELSE 0
    /\ UNCHANGED <<exists, content, meta, up, segs, sLive, eLive, writer, wcount, tmp, dtruth, davail, ver, crashes, failure>>

-----------------------------------------------------------------------------
(* the sync: writeout_start, the meta write, writeout_end                   *)
WriteoutStart ==
    /\ pc = "sync_start"
    /\ IF pend # None
       THEN /\ tmp' = [k |-> "wd", ms |-> Min2(sLive, pend), me |-> pend, ps |-> None, pe |-> pend]
            /\ pend' = None
            /\ ring' = ring
       ELSE /\ pend' = pend
            /\ IF Len(ring) > MaxLen
               THEN /\ tmp' = [k |-> "wd", ms |-> sLive, me |-> eLive, ps |-> ring[1].id + 1, pe |-> None]
                    /\ ring' = Tail(ring)
               ELSE /\ tmp' = [k |-> "wd", ms |-> sLive, me |-> eLive, ps |-> None, pe |-> None]
                    /\ ring' = ring
    /\ pc' = IF G("meta-before-prune") THEN "sync_meta" ELSE "prune_first"
    /\ UNCHANGED <<exists, content, meta, up, segs, sLive, eLive, writer, wcount, truth, dtruth, avail, davail, ver, crashes, failure>>

AfterMeta == IF tmp.ps # None THEN "prune_old" ELSE IF tmp.pe # None THEN "prune_new" ELSE "idle"

MetaWrite ==
    /\ pc = "sync_meta"
    /\ meta' = <<tmp.ms, tmp.me>>
    /\ dtruth' = truth /\ davail' = avail /\ avail' = avail
    /\ pc' = IF G("meta-before-prune") THEN AfterMeta ELSE "idle"
    /\ tmp' = IF pc' = "idle" THEN NoTmp ELSE tmp
    /\ UNCHANGED <<exists, content, up, segs, sLive, eLive, writer, wcount, ring, pend, truth, ver, crashes, failure>>

\* mutant only: pruning before the meta write
PruneFirst ==
    /\ pc = "prune_first"
    /\ pc' = IF AfterMeta = "idle" THEN "sync_meta" ELSE AfterMeta
    /\ UNCHANGED <<exists, content, meta, up, segs, sLive, eLive, writer, wcount, ring, pend, tmp, truth, dtruth, avail, davail, ver, crashes, failure>>

DonePrune == IF G("meta-before-prune") THEN "idle" ELSE "sync_meta"

\* SegmentedLog::prune_oldest(new_start)  (new_start is never nil here)
PruneOldest ==
    /\ pc = "prune_old"
    /\ IF segs = <<>>
       THEN /\ pc' = IF tmp.pe # None THEN "prune_new" ELSE DonePrune
            /\ UNCHANGED <<exists, segs, sLive>>
       ELSE /\ sLive' = tmp.ps
            /\ IF Len(segs) > 1 /\ segs[1].max < tmp.ps
               THEN /\ exists' = exists \ {segs[1].id}          \* unlink the oldest segment
                    /\ segs' = Tail(segs)
                    /\ pc' = pc
               ELSE /\ pc' = IF tmp.pe # None THEN "prune_new" ELSE DonePrune
                    /\ UNCHANGED <<exists, segs>>
    /\ tmp' = IF pc' = "idle" THEN NoTmp ELSE tmp
    /\ UNCHANGED <<content, meta, up, eLive, writer, wcount, ring, pend, truth, dtruth, avail, davail, ver, crashes, failure>>

\* index of the segment that holds new_end: newest segment with min <= new_end, else the oldest
SegIndexFor(e) ==
    LET C == {i \in 1..Len(segs) : segs[i].min <= e} IN
    IF C = {} THEN 1 ELSE CHOOSE i \in C : \A j \in C : j <= i

\* position of record e in a file, 0 if absent (scan_record_end)
PosOf(f, e) ==
    LET P == {i \in 1..Len(content[f]) : content[f][i].id = e} IN
    IF P = {} THEN 0 ELSE CHOOSE i \in P : \A j \in P : i <= j

\* size in units of the first p records of a file (the offset scan_record_end returns)
RECURSIVE UnitsUpTo(_, _)
UnitsUpTo(f, p) == IF p = 0 THEN 0 ELSE content[f][p].units + UnitsUpTo(f, p - 1)

\* SegmentedLog::prune_recent(new_end)
PruneRecent ==
    /\ pc = "prune_new"
    /\ IF tmp.pe = 0
       THEN \* remove_all_segments: the writer is dropped, files go oldest first
            /\ sLive' = 0 /\ eLive' = 0 /\ writer' = FALSE /\ wcount' = 0
            /\ IF segs = <<>>
               THEN pc' = DonePrune /\ UNCHANGED <<exists, segs>>
               ELSE /\ exists' = exists \ {segs[1].id}
                    /\ segs' = Tail(segs)
                    /\ pc' = pc
            /\ UNCHANGED <<content>>
       ELSE IF segs = <<>>
       THEN pc' = DonePrune /\ UNCHANGED <<exists, content, segs, sLive, eLive, writer, wcount>>
       ELSE LET idx == SegIndexFor(tmp.pe) IN
            IF Len(segs) > idx
            THEN \* unlink the newest segment
                 /\ exists' = exists \ {Last(segs).id}
                 /\ segs' = Front(segs)
                 /\ pc' = pc
                 /\ UNCHANGED <<content, sLive, eLive, writer, wcount>>
            ELSE \* truncate_head_segment
                 LET f == segs[idx].id
                     p == PosOf(f, tmp.pe) IN
                 IF p = 0
                 THEN /\ failure' = "prune_recent: failed to find the last live record" /\ pc' = "failed"
                      /\ UNCHANGED <<exists, content, segs, sLive, eLive, writer, wcount>>
                 ELSE /\ content' = [content EXCEPT ![f] = SubSeq(@, 1, p)]
                      /\ segs' = [segs EXCEPT ![idx].max = tmp.pe]
                      /\ eLive' = tmp.pe /\ writer' = TRUE /\ wcount' = UnitsUpTo(f, p)
                      /\ pc' = DonePrune
                      /\ UNCHANGED <<exists, sLive>>
    /\ IF pc' = "failed" THEN TRUE ELSE failure' = failure
    /\ tmp' = IF pc' = "idle" THEN NoTmp ELSE tmp
    /\ UNCHANGED <<meta, up, ring, pend, truth, dtruth, avail, davail, ver, crashes>>

-----------------------------------------------------------------------------
(* process crash and seglog::open                                           *)
Crash ==
    /\ crashes < MaxCrash
    /\ pc \notin {"failed"}
    /\ crashes' = crashes + 1
    /\ up' = FALSE /\ segs' = <<>> /\ sLive' = 0 /\ eLive' = 0 /\ writer' = FALSE /\ wcount' = 0
    /\ ring' = <<>> /\ pend' = None
    /\ pc' = "down" /\ tmp' = NoTmp
    /\ truth' = dtruth            \* what was not made durable never happened
    /\ avail' = davail
    /\ UNCHANGED <<exists, content, meta, dtruth, davail, ver, failure>>

\* the flattened record list of the candidate files, each with the index of its candidate
RECURSIVE Flat(_, _)
Flat(cands, i) ==
    IF i > Len(cands) THEN <<>>
    ELSE [j \in 1..Len(content[cands[i]]) |->
             [seg |-> i, id |-> content[cands[i]][j].id, ver |-> content[cands[i]][j].ver,
              whole |-> content[cands[i]][j].whole, first |-> (j = 1)]] \o Flat(cands, i + 1)

\* Recovery::scan_segment / on_next_record over all candidates.
\* st = [ls, le, deliv, err, last]
RECURSIVE Scan(_, _, _, _, _)
Scan(recs, i, st, s, e) ==
    IF i > Len(recs) \/ st.err # "" THEN st
    ELSE LET r == recs[i]
             ordered == r.first \/ r.id = st.last + 1
             wasLive == st.ls # 0 /\ st.le = 0
             becameLive == st.ls = 0 /\ r.id >= s
             ls2 == IF becameLive THEN r.seg ELSE st.ls
             becameNon == ls2 # 0 /\ st.le = 0 /\ r.id >= e
             le2 == IF becameNon THEN r.seg ELSE st.le
             wanted == wasLive \/ becameLive \/ becameNon IN
         IF ~ordered THEN [st EXCEPT !.err = "IDs are not ordered"]
         ELSE IF wanted /\ ~r.whole THEN [st EXCEPT !.err = "short read of a live payload"]
         ELSE Scan(recs, i + 1,
                   [ls |-> ls2, le |-> le2, err |-> "", last |-> r.id,
                    deliv |-> IF wanted THEN Append(st.deliv, [id |-> r.id, ver |-> r.ver]) ELSE st.deliv], s, e)

MinOfSeg(f) == IF content[f] = <<>> THEN 0 ELSE content[f][1].id
MaxOfSeg(f) == IF content[f] = <<>> THEN 0 ELSE Last(content[f]).id

\* seglog::open up to remove_nonlive_segments: read-only
RecoverScan ==
    /\ pc = "down"
    /\ LET cands == SetToSortedSeq(exists)
           s == meta[1]
           e == meta[2]
           gap == \E i \in 2..Len(cands) : cands[i] # cands[i - 1] + 1 IN
       IF (s = 0) # (e = 0) THEN Fail("open: live range half nil")
       ELSE IF gap THEN Fail("open: gap in segment ids")
       ELSE IF s = 0
       THEN /\ pc' = "rec_unlink"
            /\ tmp' = [k |-> "rec", rm |-> cands, live |-> <<>>, deliv |-> <<>>]
            /\ UNCHANGED <<exists, content, meta, up, segs, sLive, eLive, writer, wcount, ring, pend, truth, dtruth, avail, davail, ver, crashes, failure>>
       ELSE LET st == Scan(Flat(cands, 1), 1, [ls |-> 0, le |-> 0, deliv |-> <<>>, err |-> "", last |-> 0], s, e) IN
            IF st.err # "" THEN Fail("open: " \o st.err)
            ELSE IF st.ls = 0 THEN Fail("open: failed to find the first live segment")
            ELSE IF st.le = 0 THEN Fail("open: failed to find the last live segment")
            ELSE LET before == SubSeq(cands, 1, st.ls - 1)
                     after == SubSeq(cands, st.le + 1, Len(cands))
                     rev(q) == [i \in 1..Len(q) |-> q[Len(q) + 1 - i]] IN
                 /\ pc' = "rec_unlink"
                 \* the code removes the non-live candidates in ascending order: those before the live range,
                 \* then those after it.  Guard "desc-unlink" is the repaired order (newest first for the tail).
                 /\ tmp' = [k |-> "rec", rm |-> before \o (IF G("desc-unlink") THEN rev(after) ELSE after),
                            live |-> SubSeq(cands, st.ls, st.le), deliv |-> st.deliv]
                 /\ UNCHANGED <<exists, content, meta, up, segs, sLive, eLive, writer, wcount, ring, pend, truth, dtruth, avail, davail, ver, crashes, failure>>

RecoverUnlink ==
    /\ pc = "rec_unlink"
    /\ IF tmp.rm # <<>>
       THEN /\ exists' = exists \ {Head(tmp.rm)}
            /\ tmp' = [tmp EXCEPT !.rm = Tail(@)]
            /\ pc' = pc
       ELSE /\ pc' = "rec_trunc" /\ UNCHANGED <<exists, tmp>>
    /\ UNCHANGED <<content, meta, up, segs, sLive, eLive, writer, wcount, ring, pend, truth, dtruth, avail, davail, ver, crashes, failure>>

RecoverFinish ==
    /\ pc = "rec_trunc"
    /\ IF tmp.live = <<>>
       THEN /\ segs' = <<>> /\ writer' = FALSE /\ wcount' = 0 /\ content' = content
            /\ sLive' = meta[1] /\ eLive' = meta[2]
            /\ ring' = tmp.deliv /\ up' = TRUE /\ pc' = "idle" /\ tmp' = NoTmp /\ failure' = failure
       ELSE LET h == Last(tmp.live)
                p == PosOf(h, meta[2]) IN
            IF p = 0
            THEN /\ failure' = "open: failed to find the last live record in the head segment" /\ pc' = "failed"
                 /\ UNCHANGED <<content, segs, sLive, eLive, writer, wcount, ring, up, tmp>>
            ELSE /\ content' = [content EXCEPT ![h] = SubSeq(@, 1, p)]
                 /\ segs' = [i \in 1..Len(tmp.live) |->
                                [id |-> tmp.live[i], min |-> MinOfSeg(tmp.live[i]),
                                 max |-> IF i = Len(tmp.live) THEN meta[2] ELSE MaxOfSeg(tmp.live[i])]]
                 /\ writer' = TRUE /\ wcount' = UnitsUpTo(h, p)
                 /\ sLive' = meta[1] /\ eLive' = meta[2]
                 /\ ring' = tmp.deliv /\ up' = TRUE /\ pc' = "idle" /\ tmp' = NoTmp /\ failure' = failure
    /\ UNCHANGED <<exists, meta, pend, truth, dtruth, avail, davail, ver, crashes>>

Next ==
    \/ BeginCommit \/ AppendHeader \/ AppendPayload
    \/ (\E n \in 1..(MaxLen + 2) : BeginRollback(n))
    \/ WriteoutStart \/ MetaWrite \/ PruneFirst \/ PruneOldest \/ PruneRecent
    \/ Crash \/ RecoverScan \/ RecoverUnlink \/ RecoverFinish

Spec == Init /\ [][Next]_vars

-----------------------------------------------------------------------------
(* Properties                                                               *)

TypeOK ==
    /\ exists \subseteq SegIds
    /\ pc \in {"idle", "append_hdr", "append_pay", "sync_start", "sync_meta", "prune_first", "prune_old", "prune_new",
               "down", "rec_unlink", "rec_trunc", "failed"}

\* C09 / C03: no call that must succeed fails - in particular the store always reopens, after any number of
\* crashes at any instant, recovery included
NeverFails == failure = ""

\* C09 / C10: what an open store holds in memory is the newest part of the true history of deltas,
\* and at least as much of it as was promised
RingIsTruth ==
    (up /\ pc = "idle") => /\ IsSuffix(ring, truth)
                            /\ Len(ring) >= avail

\* in-memory bookkeeping agrees with the files at quiescent points
MemMatchesDisk ==
    (up /\ pc = "idle") =>
        /\ {segs[i].id : i \in 1..Len(segs)} = exists
        /\ <<sLive, eLive>> \in {meta, <<IF ring = <<>> THEN sLive ELSE sLive, eLive>>}
        /\ eLive = meta[2]
        /\ (ring # <<>>) => Last(ring).id = eLive
        /\ \A i \in 1..Len(segs) : content[segs[i].id] # <<>> => /\ MinOfSeg(segs[i].id) = segs[i].min
                                                                   /\ MaxOfSeg(segs[i].id) = segs[i].max
        /\ writer => wcount = UnitsUpTo(Last(segs).id, Len(content[Last(segs).id]))

\* no stale record can ever be read back: at quiescent points every record in a file is whole and belongs
\* to the true history
NoStaleRecord ==
    (up /\ pc = "idle") =>
        \A f \in exists : \A j \in 1..Len(content[f]) :
            /\ content[f][j].whole
            /\ \E t \in 1..Len(truth) : truth[t].id = content[f][j].id /\ truth[t].ver = content[f][j].ver

\* directory listing never has a hole (otherwise the next open fails)
NoGap == \A a, b \in exists : a < b => \A c \in a..b : c \in exists

Bound == /\ ver <= MaxVer /\ \A i \in 1..Len(segs) : segs[i].id <= MaxSeg
=============================================================================
