------------------------------ MODULE SyncTrace ------------------------------
(***************************************************************************)
(* Validation of recorded I/O event streams (hook H-io) against the        *)
(* ordering rules of NomtSync.tla.  One stream per recorded call:          *)
(*    op   the call, with the decoded pre-image: for ln / bbn the bump     *)
(*         pointer, the pages on the free list and the free-list pages     *)
(*    io   one begin/end event of a mutating file operation                *)
(*    ret  the call returned                                               *)
(* Each rule is the guard of the NomtSync action of the same name; a       *)
(* stream that violates one is reported with the rule's name.              *)
(*   cow              page write to ln/bbn before the switch-over only to a *)
(*                    page that is free or beyond the bump in the pre-image *)
(*                    (or with exactly the bytes the page already holds)    *)
(*   ht-after-meta    no hash-table write before the meta page is durable  *)
(*   wal-before-meta / cow-before-meta / seg-before-meta                   *)
(*                    when the meta page is written, wal, ln, bbn and the   *)
(*                    rollback segments are clean (fsync began after their  *)
(*                    last write completed) and a created segment's         *)
(*                    directory entry is synced                             *)
(*   trunc-after-htsync   wal truncated after the switch-over only with ht  *)
(*                    clean                                                 *)
(*   prune-after-meta no unlink / shrink of a rollback segment before the   *)
(*                    meta page is durable                                  *)
(*   recover-metasync / recover-htsync   the same two for a recovery        *)
(*   list-rewritten   (FreeList!CopyOnWrite, across two calls) a committed  *)
(*                    call that wrote, before its switch-over, to a page    *)
(*                    the old image's free list named has taken that page   *)
(*                    from the list: the image it leaves must hold a        *)
(*                    REWRITTEN list (another head page) - otherwise the    *)
(*                    list on disk still hands out a page that is in use    *)
(***************************************************************************)
EXTENDS Naturals, Sequences, FiniteSets, TLC, Json, IOUtils

Rec == ndJsonDeserialize(IOEnv.TRACE)

VARIABLES l,         \* next record
          op,        \* the current op record (or <<>>)
          dirty,     \* set of files written since their last covering fsync
          inflight,  \* set of <<file, offset>> of begun, unfinished writes
          syncing,   \* set of <<file, coversAll>>: fsyncs in progress; coversAll = nothing was in flight / written since
          metaW,     \* the meta page was written in this call
          metaD,     \* ... and fsynced
          created,   \* segment files created and not yet covered by a directory sync
          bad,       \* rule violations found so far in this call (reported once per call and rule)
          took,      \* files (ln / bbn) of which this call wrote a free-listed page before the switch-over
          prev       \* <<>> or what the last call of the run left behind, if it committed: [run, took, head, seqn]

vars == <<l, op, dirty, inflight, syncing, metaW, metaD, created, bad, took, prev>>

IsSeg(f) == f \notin {"meta", "wal", "ht", "ln", "bbn", ".", ".lock"}
IsWriteKind(k) == k \in {"write", "append", "setlen", "submit"}

Cur == Rec[l]

FreeOf(f) == {op.pre[f].free[i] : i \in 1..Len(op.pre[f].free)}
\* the pages the old image references, found by the independent decoder walking the trees (when recorded)
LiveOf(f) == IF "live" \in DOMAIN op.pre[f] THEN {op.pre[f].live[i] : i \in 1..Len(op.pre[f].live)} ELSE {}
\* a page the old image does not reference: on the free list, or at / beyond the bump pointer - and not
\* reachable from the old image's trees (the store's own free list is not trusted: a list that still names a page
\* the trees use does not make that page writable)
Unreferenced(f, p) == (p \in FreeOf(f) \/ p >= op.pre[f].bump) /\ p \notin LiveOf(f)

IsRecovery == op # <<>> /\ op.op.a = "Reopen"

HeadOf(pre, f) == IF Len(pre[f].flPages) = 0 THEN 0 ELSE pre[f].flPages[1]
\* files whose free list the previous call popped from and which still has the same head page
StaleLists(e) ==
    IF prev = <<>> \/ "run" \notin DOMAIN e \/ "pre" \notin DOMAIN e \/ "img" \in DOMAIN e THEN {}   \* (img: recovery of a crash image, not a call of the run)
    ELSE IF prev.run # e.run \/ "seqn" \notin DOMAIN e.pre THEN {}
    \* not every call of a run is recorded: the image must be the one the remembered call left (its sync number + 1)
    ELSE IF e.pre.seqn # prev.seqn + 1 THEN {}
    ELSE {f \in prev.took : f \in DOMAIN e.pre /\ HeadOf(e.pre, f) = prev.head[f]}

Report(rule) == IF rule \in bad THEN TRUE ELSE PrintT(<<"RULE-VIOLATED", rule, l, ToJson(Cur)>>)

\* rules checked when an operation BEGINS
BeginViolations(e) ==
    LET f == e.f IN
    {r \in {"cow", "ht-after-meta", "wal-before-meta", "cow-before-meta", "seg-before-meta",
            "trunc-after-htsync", "prune-after-meta", "recover-metasync", "recover-htsync"} :
        CASE r = "cow" ->
                 /\ ~IsRecovery /\ e.k = "submit" /\ f \in {"ln", "bbn"} /\ ~metaD
                 /\ ~Unreferenced(f, e.off)
                 \* writing back exactly the bytes the page holds in the pre-image does not modify the old image
                 \* (the free-list writer re-emits an untouched full page of the list): the recorder marks such writes
                 /\ ~("same" \in DOMAIN e /\ e.same)
          [] r = "ht-after-meta" ->
                 /\ ~IsRecovery /\ f = "ht" /\ IsWriteKind(e.k) /\ ~metaD
          [] r = "wal-before-meta" ->
                 /\ ~IsRecovery /\ f = "meta" /\ e.k = "write"
                 /\ ("wal" \in dirty \/ \E x \in inflight : x[1] = "wal")
          [] r = "cow-before-meta" ->
                 /\ ~IsRecovery /\ f = "meta" /\ e.k = "write"
                 /\ \E g \in {"ln", "bbn"} : g \in dirty \/ \E x \in inflight : x[1] = g
          [] r = "seg-before-meta" ->
                 /\ ~IsRecovery /\ f = "meta" /\ e.k = "write"
                 /\ (\E g \in dirty : IsSeg(g)) \/ created # {}
          [] r = "trunc-after-htsync" ->
                 /\ ~IsRecovery /\ f = "wal" /\ e.k = "setlen" /\ metaD
                 /\ ("ht" \in dirty \/ \E x \in inflight : x[1] = "ht")
          [] r = "prune-after-meta" ->
                 /\ ~IsRecovery /\ IsSeg(f) /\ ~metaD /\ e.k = "unlink"
          [] r = "recover-metasync" ->
                 /\ IsRecovery /\ ~metaD /\ IsWriteKind(e.k) /\ f \in {"ht", "wal", "ln", "bbn"}
          [] r = "recover-htsync" ->
                 /\ IsRecovery /\ f = "wal" /\ e.k = "fsync"
                 /\ ("ht" \in dirty \/ \E x \in inflight : x[1] = "ht")
          [] OTHER -> FALSE}

Init == l = 1 /\ op = <<>> /\ dirty = {} /\ inflight = {} /\ syncing = {} /\ metaW = FALSE /\ metaD = FALSE
        /\ created = {} /\ bad = {} /\ took = {} /\ prev = <<>>

StepOp ==
    /\ Cur.ev = "op"
    /\ op' = Cur /\ dirty' = {} /\ inflight' = {} /\ syncing' = {} /\ metaW' = FALSE /\ metaD' = FALSE
    /\ created' = {} /\ bad' = {} /\ took' = {}
    /\ IF StaleLists(Cur) # {} THEN PrintT(<<"RULE-VIOLATED", "list-rewritten", l, ToJson([ev |-> "op", run |-> Cur.run, i |-> Cur.i, op |-> Cur.op, files |-> StaleLists(Cur), head |-> prev.head])>>) ELSE TRUE
    /\ UNCHANGED prev

StepRet ==
    /\ Cur.ev = "ret"
    \* only a call that reached its durable switch-over (and is not a recovery) says something about the next image
    /\ prev' = IF op # <<>> /\ ~IsRecovery /\ metaD /\ "run" \in DOMAIN op
               THEN [run |-> op.run, took |-> took, head |-> [f \in {"ln", "bbn"} |-> HeadOf(op.pre, f)], seqn |-> op.pre.seqn]
               ELSE IF op # <<>> /\ "img" \in DOMAIN op THEN prev
               ELSE <<>>
    /\ UNCHANGED <<op, dirty, inflight, syncing, metaW, metaD, created, bad, took>>

StepIo ==
    /\ Cur.ev = "io"
    /\ LET e == Cur
           f == e.f
       IN IF e.ph = "begin" /\ ~e.inj THEN
              LET v == BeginViolations(e) IN
              /\ \A r \in v : Report(r)
              /\ bad' = bad \cup v
              /\ IF IsWriteKind(e.k) THEN
                     /\ dirty' = dirty \cup {f}
                     /\ inflight' = inflight \cup {<<f, e.off, e.k>>}
                     \* a write that begins during an fsync is not covered by it
                     /\ syncing' = {<<s[1], IF s[1] = f THEN FALSE ELSE s[2]>> : s \in syncing}
                     /\ UNCHANGED <<metaW, metaD, created>>
                 ELSE IF e.k = "fsync" THEN
                     /\ syncing' = syncing \cup {<<f, ~\E x \in inflight : x[1] = f>>}
                     /\ UNCHANGED <<dirty, inflight, metaW, metaD, created>>
                 ELSE IF e.k = "create" THEN
                     /\ created' = created \cup {f}
                     /\ UNCHANGED <<dirty, inflight, syncing, metaW, metaD>>
                 ELSE UNCHANGED <<dirty, inflight, syncing, metaW, metaD, created>>
          ELSE IF e.ph = "end" THEN
              /\ bad' = bad
              /\ IF e.k \in {"write", "append", "setlen"} THEN
                     /\ inflight' = inflight \ {<<f, x[2], e.k>> : x \in {y \in inflight : y[1] = f /\ y[3] = e.k}}
                     /\ metaW' = (metaW \/ (f = "meta" /\ e.k = "write"))
                     /\ UNCHANGED <<dirty, syncing, metaD, created>>
                 ELSE IF e.k = "complete" THEN
                     /\ inflight' = inflight \ {<<f, e.off, "submit">>}
                     /\ UNCHANGED <<dirty, syncing, metaW, metaD, created>>
                 ELSE IF e.k = "fsync" THEN
                     /\ LET covering == \E s \in syncing : s[1] = f /\ s[2] IN
                        /\ dirty' = IF covering THEN dirty \ {f} ELSE dirty
                        /\ metaD' = (metaD \/ (f = "meta" /\ covering /\ (metaW \/ IsRecovery)))
                     /\ syncing' = {s \in syncing : s[1] # f}
                     /\ UNCHANGED <<inflight, metaW, created>>
                 ELSE IF e.k = "dirsync" THEN
                     /\ created' = {}
                     /\ UNCHANGED <<dirty, inflight, syncing, metaW, metaD>>
                 ELSE UNCHANGED <<dirty, inflight, syncing, metaW, metaD, created>>
          ELSE /\ bad' = bad /\ UNCHANGED <<dirty, inflight, syncing, metaW, metaD, created>>
    /\ took' = IF Cur.ph = "begin" /\ ~Cur.inj /\ ~IsRecovery /\ Cur.k = "submit" /\ Cur.f \in {"ln", "bbn"} /\ ~metaD
                  /\ Cur.off \in FreeOf(Cur.f)
               THEN took \cup {Cur.f} ELSE took
    /\ UNCHANGED <<op, prev>>

Next == /\ l <= Len(Rec)
        /\ StepOp \/ StepRet \/ StepIo
        /\ l' = l + 1

Spec == Init /\ [][Next]_vars

Finished ==
    LET d == TLCGet("stats").diameter IN
    IF d - 1 = Len(Rec) THEN PrintT(<<"TRACE-COMPLETE", Len(Rec)>>)
    ELSE Print(<<"TRACE-INCOMPLETE", d>>, FALSE)
=============================================================================
