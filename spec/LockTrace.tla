------------------------------ MODULE LockTrace ------------------------------
(***************************************************************************)
(* Validation of the directory-lock log of `nvh lock` against the Opener   *)
(* part of NomtConc: at most one live handle; a refused attempt modifies   *)
(* no file; a handle that ends (drop, drop after a failed commit, process  *)
(* death) frees the directory; no I/O of a handle arrives after it         *)
(* released the lock (NomtConc!Unlock requires the I/O pool drained).      *)
(***************************************************************************)
EXTENDS Naturals, Sequences, TLC, Json, IOUtils

Rec == ndJsonDeserialize(IOEnv.TRACE)

VARIABLES l, holder

Cur == Rec[l]

Ok ==
    CASE Cur.ev = "reset" -> TRUE
      [] Cur.ev = "open" /\ Cur.res = "Ok" ->
             /\ holder = "none"                      \* AtMostOneHandle
             /\ ("usable" \in DOMAIN Cur => Cur.usable)
      [] Cur.ev = "open" /\ Cur.res = "Err" ->
             /\ holder # "none"                      \* refused only while a handle is alive
             /\ Cur.unchanged                        \* RefusedOpenTouchesNothing
      [] Cur.ev = "poison" -> TRUE       \* whether the handle is poisoned is C14's business, not C20's
      [] Cur.ev = "close" ->
             /\ holder = Cur.who
             /\ Cur.unlockSeen /\ Cur.lateIo = 0     \* LockAfterDrain
      [] Cur.ev = "kill" -> holder = Cur.who
      [] OTHER -> FALSE

NextHolder ==
    IF Cur.ev = "open" /\ Cur.res = "Ok" THEN Cur.who
    ELSE IF Cur.ev \in {"close", "kill", "reset"} THEN "none" ELSE holder

Init == l = 1 /\ holder = "none"
Next == /\ l <= Len(Rec)
        /\ IF Ok THEN TRUE ELSE PrintT(<<"BAD-RECORD", l, ToJson(Cur)>>)
        /\ holder' = NextHolder
        /\ l' = l + 1
Spec == Init /\ [][Next]_<<l, holder>>

Finished ==
    LET d == TLCGet("stats").diameter IN
    IF d - 1 = Len(Rec) THEN PrintT(<<"TRACE-COMPLETE", Len(Rec)>>)
    ELSE Print(<<"TRACE-INCOMPLETE", d>>, FALSE)
=============================================================================
