----------------------------- MODULE SeglogTrace -----------------------------
(***************************************************************************)
(* Trace validation for Seglog: the recorded file-system events of the     *)
(* rollback log of the REAL store (hook H-io: create / append header /     *)
(* append payload + resize / unlink / truncate of rollback.N.log, the meta *)
(* write with the live range it carries) must be a behaviour of Seglog.    *)
(*                                                                         *)
(* One trace record per event that has a file-system effect; the steps of  *)
(* Seglog without one (in-memory bookkeeping, loop exits) are taken        *)
(* silently - they are deterministic, so the search stays a line.  Records *)
(*   reset                     a fresh store                               *)
(*   op a [n]                  an API call starts (Rollback n: truncate)   *)
(*   create seg | hdr seg rid | pay seg units | meta s e                   *)
(*   unlink seg | trunc seg units                                          *)
(*   ret                       the call returned: Seglog must be idle      *)
(*   pre meta segs             the directory as decoded before a call:     *)
(*                             must equal Seglog's files (state binding)   *)
(*   save / crash / opened / restore   a process crash at this event       *)
(*                             boundary, the recorded recovery of that     *)
(*                             image, then back to the boundary            *)
(* Seglog's invariants are checked in every state of the validated trace.  *)
(***************************************************************************)
EXTENDS Seglog, Json, IOUtils, TLCExt

Rec == ndJsonDeserialize(IOEnv.TRACE)

VARIABLES l, saved
tvars == <<vars, l, saved>>

Cur == Rec[l]
IsEv(k) == l <= Len(Rec) /\ Cur.k = k
Adv == l' = l + 1
Silent == l' = l /\ saved' = saved
AllVars == <<exists, content, meta, up, segs, sLive, eLive, writer, wcount, ring, pend, pc, tmp,
             truth, dtruth, avail, davail, ver, crashes, failure>>

\* which file-system effect the next step of a pruning / recovery loop has
NextFs ==
    IF pc = "prune_old" THEN (IF segs # <<>> /\ Len(segs) > 1 /\ segs[1].max < tmp.ps THEN "unlink" ELSE "none")
    ELSE IF pc = "prune_new"
         THEN (IF tmp.pe = 0 THEN (IF segs = <<>> THEN "none" ELSE "unlink")
               ELSE IF segs = <<>> THEN "none"
               ELSE IF Len(segs) > SegIndexFor(tmp.pe) THEN "unlink" ELSE "trunc")
    ELSE IF pc = "rec_unlink" THEN (IF tmp.rm # <<>> THEN "unlink" ELSE "none")
    ELSE IF pc = "rec_trunc" THEN (IF tmp.live = <<>> THEN "none" ELSE "trunc")
    ELSE IF pc \in {"down", "sync_start", "prune_first"} THEN "none"
    ELSE "other"

TrReset ==
    /\ IsEv("reset")
    /\ exists' = {} /\ content' = [i \in SegIds |-> <<>>]
    /\ meta' = <<0, 0>>
    /\ up' = TRUE /\ segs' = <<>> /\ sLive' = 0 /\ eLive' = 0 /\ writer' = FALSE /\ wcount' = 0
    /\ ring' = <<>> /\ pend' = None
    /\ pc' = "idle" /\ tmp' = NoTmp
    /\ truth' = <<>> /\ dtruth' = <<>> /\ avail' = 0 /\ davail' = 0
    /\ ver' = 0 /\ crashes' = 0 /\ failure' = ""
    /\ saved' = <<>> /\ Adv

TrOp ==
    /\ IsEv("op") /\ pc = "idle" /\ up
    /\ IF Cur.a = "Rollback" THEN BeginRollback(Cur.n)
       ELSE IF Cur.a = "Reopen" THEN Crash
       ELSE UNCHANGED vars
    /\ saved' = saved /\ Adv

TrCreate ==
    /\ IsEv("create") /\ pc = "idle"
    /\ BeginCommit
    /\ Cur.seg \notin exists /\ exists' = exists \cup {Cur.seg}
    /\ saved' = saved /\ Adv

\* append into the current head segment: the call starts without a file-system effect of its own
SilentBegin ==
    /\ IsEv("hdr") /\ pc = "idle"
    /\ BeginCommit /\ exists' = exists
    /\ Silent

TrHdr ==
    /\ IsEv("hdr") /\ pc = "append_hdr"
    /\ AppendHeader
    /\ Last(segs).id = Cur.seg /\ tmp.rid = Cur.rid
    /\ saved' = saved /\ Adv

TrPay ==
    /\ IsEv("pay") /\ pc = "append_pay"
    /\ AppendPayloadU(Cur.units)
    /\ Last(segs).id = Cur.seg
    /\ saved' = saved /\ Adv

TrMeta ==
    /\ IsEv("meta") /\ pc = "sync_meta"
    /\ MetaWrite
    /\ meta' = <<Cur.s, Cur.e>>
    /\ saved' = saved /\ Adv

TrUnlink ==
    /\ IsEv("unlink") /\ NextFs = "unlink"
    /\ (PruneOldest \/ PruneRecent \/ RecoverUnlink)
    /\ Cur.seg \in exists /\ exists' = exists \ {Cur.seg}
    /\ saved' = saved /\ Adv

TrTrunc ==
    /\ IsEv("trunc") /\ NextFs = "trunc"
    /\ (PruneRecent \/ RecoverFinish)
    /\ pc' # "failed"
    /\ Last(segs').id = Cur.seg /\ wcount' = Cur.units
    /\ saved' = saved /\ Adv

SilentStep ==
    /\ NextFs = "none"
    /\ (WriteoutStart \/ PruneFirst \/ PruneOldest \/ PruneRecent \/ RecoverScan \/ RecoverUnlink \/ RecoverFinish)
    /\ Silent

TrRet ==
    /\ IsEv("ret") /\ pc = "idle" /\ up
    /\ UNCHANGED vars /\ saved' = saved /\ Adv

\* the directory as the independent decoder sees it before a call
FilesOf(snap) == {snap[i][1] : i \in 1..Len(snap)}
TrPre ==
    /\ IsEv("pre") /\ pc = "idle" /\ up
    /\ meta = <<Cur.meta[1], Cur.meta[2]>>
    /\ exists = FilesOf(Cur.segs)
    /\ \A i \in 1..Len(Cur.segs) :
          LET f == Cur.segs[i][1]
              rs == Cur.segs[i][2] IN
          /\ Len(content[f]) = Len(rs)
          /\ \A j \in 1..Len(rs) : /\ content[f][j].id = rs[j][1]
                                   /\ content[f][j].units = rs[j][2]
                                   /\ content[f][j].whole = rs[j][3]
    /\ UNCHANGED vars /\ saved' = saved /\ Adv

TrSave == IsEv("save") /\ saved' = AllVars /\ UNCHANGED vars /\ Adv
TrRestore ==
    /\ IsEv("restore") /\ saved # <<>>
    /\ exists' = saved[1] /\ content' = saved[2] /\ meta' = saved[3] /\ up' = saved[4] /\ segs' = saved[5]
    /\ sLive' = saved[6] /\ eLive' = saved[7] /\ writer' = saved[8] /\ wcount' = saved[9] /\ ring' = saved[10]
    /\ pend' = saved[11] /\ pc' = saved[12] /\ tmp' = saved[13] /\ truth' = saved[14] /\ dtruth' = saved[15]
    /\ avail' = saved[16] /\ davail' = saved[17] /\ ver' = saved[18] /\ crashes' = saved[19] /\ failure' = saved[20]
    /\ saved' = saved /\ Adv
TrCrash == IsEv("crash") /\ Crash /\ saved' = saved /\ Adv
TrOpened == IsEv("opened") /\ pc = "idle" /\ up /\ UNCHANGED vars /\ saved' = saved /\ Adv

TraceInit == Init /\ l = 1 /\ saved = <<>>

TraceNext ==
    \/ TrReset \/ TrOp \/ TrCreate \/ SilentBegin \/ TrHdr \/ TrPay \/ TrMeta \/ TrUnlink \/ TrTrunc
    \/ SilentStep \/ TrRet \/ TrPre \/ TrSave \/ TrRestore \/ TrCrash \/ TrOpened

TraceSpec == TraceInit /\ [][TraceNext]_tvars

\* the furthest record reached (register 1), maintained from a constraint; -workers 1
ASSUME TLCSet(1, 0)
Track == TLCSet(1, IF l > TLCGet(1) THEN l ELSE TLCGet(1))

TraceAccepted ==
    LET d == TLCGet(1) IN
    IF d = Len(Rec) + 1 THEN PrintT(<<"TRACE-ACCEPTED", Len(Rec)>>)
    ELSE Print(<<"TRACE-REJECTED", d, ToJson(Rec[d])>>, FALSE)
=============================================================================
