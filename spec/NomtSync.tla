------------------------------ MODULE NomtSync ------------------------------
(***************************************************************************)
(* The commit / recovery protocol of NOMT over a disk with a volatile      *)
(* (page-cache) and a durable view of every file (store/sync.rs:31,        *)
(* bitbox/mod.rs:330-420, beatree/mod.rs:420-480, rollback/mod.rs:255-310, *)
(* seglog/mod.rs, store/meta.rs:146, recovery: bitbox/mod.rs:422).         *)
(*                                                                         *)
(* One sync (the transition from the OLD committed state to the NEW one)   *)
(* is modelled; contents are abstract:                                     *)
(*    "o"  what the page held in the old state                             *)
(*    "n"  what the new state wants it to hold                             *)
(* ln / bbn are copy-on-write page files, ht is updated IN PLACE under the *)
(* protection of the redo log (wal), meta is the single switch-over page,  *)
(* seg is the rollback segment log.                                        *)
(*                                                                         *)
(* Every action is one I/O event class of the implementation; its guard is *)
(* the ordering rule the design relies on.  Each guard can be switched off *)
(* by listing its name in Drop (mutant configurations): TLC must then find *)
(* a counterexample, which shows the rule is load-bearing.                 *)
(***************************************************************************)
EXTENDS Naturals, FiniteSets, TLC

CONSTANTS
    CowFiles,       \* {"ln", "bbn"}
    Pages,          \* page numbers of a copy-on-write file
    LiveOld,        \* [CowFiles -> SUBSET Pages]: pages the old state references (live + free-list pages)
    KeepOld,        \* [CowFiles -> SUBSET Pages]: pages of the old state the new state still references
    Need,           \* [CowFiles -> Nat]: how many fresh pages the new state needs written
    Beyond,         \* [CowFiles -> SUBSET Pages]: pages beyond the old file length (need a resize)
    HtPages,        \* buckets of the hash table
    HtChanged,      \* buckets this sync rewrites (in place)
    WithRollback,   \* BOOLEAN: a rollback delta is appended by this commit
    SegRollsOver,   \* BOOLEAN: the append creates a new segment file
    PrunesOld,      \* BOOLEAN: the sync prunes the oldest record afterwards (the old state references it)
    Drop,           \* set of guard names that are switched off (mutants)
    MaxCrashes      \* bound on nested crashes

G(name) == name \in Drop      \* "this guard is dropped"

VARIABLES
    pc,        \* "run" (sync in progress), "ret" (returned Ok), "failed" (returned Err), "down" (crashed),
               \* "rec" (recovery in progress), "up" (recovered, quiescent)
    vol, dur,  \* [file -> content]; for cow files and ht: [page -> "o"|"n"]
    len,       \* [CowFiles -> [v: "short"|"long", d: "short"|"long"]]
    inflight,  \* set of <<file, page>> submitted and not completed
    written,   \* [CowFiles -> SUBSET Pages] pages this sync has written (its fresh pages)
    synced,    \* set of files whose pre-meta fsync was issued after their last write
    wal,       \* [v, d] each in {"empty", "oldblob", "newblob", "partial"}
    meta,      \* [v, d] each in {"o", "n"}
    seg,       \* [rec: [v, d: BOOLEAN] (the new record present), dirent: [v, d: BOOLEAN] (new segment file linked),
               \*  oldrec: [v, d: BOOLEAN] (the oldest record of the old range present)]
    htSynced,  \* BOOLEAN: post-meta ht fsync done after the last ht write
    walTruncPost, \* BOOLEAN
    crashes,   \* number of crashes so far
    rstep,     \* recovery progress: "meta" | "wal" | "apply" | "collapse" | "seg" | "done"
    rState,    \* which state recovery decided for: "o" | "n" | "none"
    poisoned

vars == <<pc, vol, dur, len, inflight, written, synced, wal, meta, seg, htSynced, walTruncPost, crashes, rstep,
          rState, poisoned>>

Files == CowFiles \cup {"ht"}

AllOld(f) == [p \in (IF f = "ht" THEN HtPages ELSE Pages) |-> "o"]

Init ==
    /\ pc = "run"
    /\ vol = [f \in Files |-> AllOld(f)] /\ dur = [f \in Files |-> AllOld(f)]
    /\ len = [f \in CowFiles |-> [v |-> "short", d |-> "short"]]
    /\ inflight = {} /\ written = [f \in CowFiles |-> {}] /\ synced = {}
    /\ wal \in {[v |-> "empty", d |-> "empty"], [v |-> "empty", d |-> "oldblob"]}  \* last truncation may not be durable
    /\ meta = [v |-> "o", d |-> "o"]
    /\ seg = [rec |-> [v |-> FALSE, d |-> FALSE], dirent |-> [v |-> ~SegRollsOver, d |-> ~SegRollsOver],
              oldrec |-> [v |-> TRUE, d |-> TRUE]]
    /\ htSynced = FALSE /\ walTruncPost = FALSE
    /\ crashes = 0 /\ rstep = "done" /\ rState = "none" /\ poisoned = FALSE

Running == pc = "run"

(***************************************************************************)
(* Rollback log: append + fsync happen in Rollback::commit before the sync *)
(***************************************************************************)
SegCreate ==
    /\ Running /\ WithRollback /\ SegRollsOver /\ ~seg.dirent.v
    /\ seg' = [seg EXCEPT !.dirent.v = TRUE]
    /\ UNCHANGED <<pc, vol, dur, len, inflight, written, synced, wal, meta, htSynced, walTruncPost, crashes, rstep, rState, poisoned>>

SegAppend ==
    /\ Running /\ WithRollback /\ seg.dirent.v /\ ~seg.rec.v
    /\ seg' = [seg EXCEPT !.rec.v = TRUE]
    /\ UNCHANGED <<pc, vol, dur, len, inflight, written, synced, wal, meta, htSynced, walTruncPost, crashes, rstep, rState, poisoned>>

SegFsync ==
    /\ Running /\ seg.rec.v /\ ~seg.rec.d
    /\ seg' = [seg EXCEPT !.rec.d = TRUE]
    /\ UNCHANGED <<pc, vol, dur, len, inflight, written, synced, wal, meta, htSynced, walTruncPost, crashes, rstep, rState, poisoned>>

SegDirSync ==
    /\ Running /\ seg.rec.d /\ seg.dirent.v /\ ~seg.dirent.d
    /\ seg' = [seg EXCEPT !.dirent.d = TRUE]
    /\ UNCHANGED <<pc, vol, dur, len, inflight, written, synced, wal, meta, htSynced, walTruncPost, crashes, rstep, rState, poisoned>>

SegReady == ~WithRollback \/ (seg.rec.d /\ seg.dirent.d)

(***************************************************************************)
(* beatree: copy-on-write page files                                       *)
(***************************************************************************)
Grow(f) ==
    /\ Running /\ len[f].v = "short"
    /\ len' = [len EXCEPT ![f].v = "long"]
    /\ synced' = synced \ {f}
    /\ UNCHANGED <<pc, vol, dur, inflight, written, wal, meta, seg, htSynced, walTruncPost, crashes, rstep, rState, poisoned>>

\* C17: a page write before the switch-over may only target a page the old state does not reference
SubmitWrite(f, p) ==
    /\ Running /\ meta.v = "o"
    /\ Cardinality(written[f]) < Need[f] /\ p \notin written[f]
    /\ G("cow") \/ p \notin LiveOld[f]
    /\ p \in Beyond[f] => len[f].v = "long"
    /\ inflight' = inflight \cup {<<f, p>>}
    /\ written' = [written EXCEPT ![f] = @ \cup {p}]
    /\ synced' = synced \ {f}
    /\ UNCHANGED <<pc, vol, dur, len, wal, meta, seg, htSynced, walTruncPost, crashes, rstep, rState, poisoned>>

CompleteWrite(f, p) ==
    /\ pc \in {"run", "ret"} /\ <<f, p>> \in inflight
    /\ inflight' = inflight \ {<<f, p>>}
    /\ vol' = [vol EXCEPT ![f][p] = "n"]
    /\ UNCHANGED <<pc, dur, len, written, synced, wal, meta, seg, htSynced, walTruncPost, crashes, rstep, rState, poisoned>>

\* pre-meta fsync of ln / bbn: only after all their writes completed (beatree/mod.rs:460, fsyncer.rs:110)
FsyncCow(f) ==
    /\ Running /\ meta.v = "o" /\ f \notin synced
    /\ Cardinality(written[f]) = Need[f]
    /\ G("fsync-after-complete") \/ ~\E p \in Pages : <<f, p>> \in inflight
    /\ dur' = [dur EXCEPT ![f] = vol[f]]
    /\ len' = [len EXCEPT ![f].d = len[f].v]
    /\ synced' = synced \cup {f}
    /\ UNCHANGED <<pc, vol, inflight, written, wal, meta, seg, htSynced, walTruncPost, crashes, rstep, rState, poisoned>>

(***************************************************************************)
(* bitbox pre-meta: rewrite and fsync the redo log (bitbox/writeout.rs:17) *)
(***************************************************************************)
WalTruncate ==
    /\ Running /\ meta.v = "o" /\ wal.v \in {"empty", "oldblob"} /\ "wal" \notin synced
    /\ wal' = [wal EXCEPT !.v = "empty"]
    /\ UNCHANGED <<pc, vol, dur, len, inflight, written, synced, meta, seg, htSynced, walTruncPost, crashes, rstep, rState, poisoned>>

WalWrite ==
    /\ Running /\ meta.v = "o" /\ wal.v = "empty" /\ "wal" \notin synced
    /\ wal' = [wal EXCEPT !.v = "newblob"]
    /\ UNCHANGED <<pc, vol, dur, len, inflight, written, synced, meta, seg, htSynced, walTruncPost, crashes, rstep, rState, poisoned>>

WalFsync ==
    /\ Running /\ meta.v = "o" /\ wal.v = "newblob" /\ "wal" \notin synced
    /\ wal' = [wal EXCEPT !.d = "newblob"]
    /\ synced' = synced \cup {"wal"}
    /\ UNCHANGED <<pc, vol, dur, len, inflight, written, meta, seg, htSynced, walTruncPost, crashes, rstep, rState, poisoned>>

(***************************************************************************)
(* the switch-over (store/sync.rs:74, meta.rs:146)                         *)
(***************************************************************************)
\* C04: everything the new state depends on is durable before the meta page is written
WriteMeta ==
    /\ Running /\ meta.v = "o"
    /\ G("wal-before-meta") \/ "wal" \in synced
    /\ \A f \in CowFiles : G("cow-before-meta") \/ f \in synced
    /\ \A f \in CowFiles : Cardinality(written[f]) = Need[f]
    /\ wal.v = "newblob"
    /\ G("seg-before-meta") \/ SegReady
    /\ WithRollback => seg.rec.v
    /\ meta' = [meta EXCEPT !.v = "n"]
    /\ UNCHANGED <<pc, vol, dur, len, inflight, written, synced, wal, seg, htSynced, walTruncPost, crashes, rstep, rState, poisoned>>

FsyncMeta ==
    /\ Running /\ meta.v = "n" /\ meta.d = "o"
    /\ meta' = [meta EXCEPT !.d = "n"]
    /\ UNCHANGED <<pc, vol, dur, len, inflight, written, synced, wal, seg, htSynced, walTruncPost, crashes, rstep, rState, poisoned>>

MetaDurable == meta.d = "n"

(***************************************************************************)
(* post-meta: hash table written in place, redo log truncated, log pruned  *)
(***************************************************************************)
\* C17/C03: in-place overwrite of hash-table pages only after the switch-over (and the redo log) is durable
SubmitHt(p) ==
    /\ Running /\ p \in HtChanged /\ vol["ht"][p] = "o" /\ <<"ht", p>> \notin inflight
    /\ G("ht-after-meta") \/ MetaDurable
    /\ inflight' = inflight \cup {<<"ht", p>>}
    /\ htSynced' = FALSE
    /\ UNCHANGED <<pc, vol, dur, len, written, synced, wal, meta, seg, walTruncPost, crashes, rstep, rState, poisoned>>

HtAllWritten == \A p \in HtChanged : vol["ht"][p] = "n"

FsyncHt ==
    /\ Running /\ HtAllWritten /\ ~htSynced
    /\ G("htfsync-after-complete") \/ ~\E p \in HtPages : <<"ht", p>> \in inflight
    /\ dur' = [dur EXCEPT !["ht"] = vol["ht"]]
    /\ htSynced' = TRUE
    /\ UNCHANGED <<pc, vol, len, inflight, written, synced, wal, meta, seg, walTruncPost, crashes, rstep, rState, poisoned>>

\* C04: the redo log is only discarded once the pages it protects are durable (bitbox/mod.rs:398-416)
WalTruncatePost ==
    /\ Running /\ MetaDurable /\ ~walTruncPost
    /\ G("trunc-after-htsync") \/ htSynced
    /\ HtAllWritten
    /\ wal' = [wal EXCEPT !.v = "empty"]          \* deliberately not fsynced
    /\ walTruncPost' = TRUE
    /\ UNCHANGED <<pc, vol, dur, len, inflight, written, synced, meta, seg, htSynced, crashes, rstep, rState, poisoned>>

\* C17: the oldest record (referenced by the old range) is unlinked only after the switch-over is durable
SegPrune ==
    /\ Running /\ PrunesOld /\ seg.oldrec.v
    /\ G("prune-after-meta") \/ MetaDurable
    /\ seg' = [seg EXCEPT !.oldrec.v = FALSE]      \* unlink; durable whenever the directory happens to sync
    /\ UNCHANGED <<pc, vol, dur, len, inflight, written, synced, wal, meta, htSynced, walTruncPost, crashes, rstep, rState, poisoned>>

SegPruneDurable ==
    /\ pc \in {"run", "ret", "up"} /\ ~seg.oldrec.v /\ seg.oldrec.d
    /\ seg' = [seg EXCEPT !.oldrec.d = FALSE]
    /\ UNCHANGED <<pc, vol, dur, len, inflight, written, synced, wal, meta, htSynced, walTruncPost, crashes, rstep, rState, poisoned>>

Return ==
    /\ Running /\ MetaDurable /\ htSynced /\ walTruncPost /\ (PrunesOld => ~seg.oldrec.v)
    /\ pc' = "ret"
    /\ UNCHANGED <<vol, dur, len, inflight, written, synced, wal, meta, seg, htSynced, walTruncPost, crashes, rstep, rState, poisoned>>

\* C14: any I/O step may fail instead: the sync stops, reports the error and poisons the handle
IoFail ==
    /\ Running
    /\ pc' = "failed" /\ poisoned' = TRUE
    /\ UNCHANGED <<vol, dur, len, inflight, written, synced, wal, meta, seg, htSynced, walTruncPost, crashes, rstep, rState>>

(***************************************************************************)
(* Crashes.  A process crash keeps the page cache (vol); in-flight writes  *)
(* are each applied or not.  A power loss keeps the durable view plus any  *)
(* subset of unsynced in-place page writes; an unsynced append/resize is   *)
(* lost or kept; an unsynced wal rewrite may leave a partial blob.         *)
(***************************************************************************)
InflightOutcomes ==
    {S \in SUBSET inflight : TRUE}

ApplyWrites(view, S) ==
    [f \in Files |-> [p \in DOMAIN view[f] |-> IF <<f, p>> \in S THEN "n" ELSE view[f][p]]]

Crash ==
    /\ pc \in {"run", "ret", "failed", "rec", "up"} /\ crashes < MaxCrashes
    /\ \E S \in InflightOutcomes :
         LET img == ApplyWrites(vol, S) IN
         /\ vol' = img /\ dur' = dur
    /\ inflight' = {}
    /\ pc' = "down" /\ crashes' = crashes + 1 /\ rstep' = "meta" /\ rState' = "none"
    /\ poisoned' = FALSE
    /\ UNCHANGED <<len, written, synced, wal, meta, seg, htSynced, walTruncPost>>

\* choice of surviving unsynced page writes: any page is either its durable or its volatile content
PageImages(f) == {img \in [DOMAIN vol[f] -> {"o", "n"}] :
                     \A p \in DOMAIN vol[f] : img[p] \in {dur[f][p], vol[f][p]} \cup
                         (IF <<f, p>> \in inflight THEN {"n"} ELSE {})}

PowerLoss ==
    /\ pc \in {"run", "ret", "failed", "rec", "up"} /\ crashes < MaxCrashes
    /\ \E img \in [Files -> UNION {PageImages(f) : f \in Files}] :
         /\ \A f \in Files : img[f] \in PageImages(f)
         /\ vol' = img /\ dur' = img
    /\ \E lv \in [CowFiles -> {"short", "long"}] :
         /\ \A f \in CowFiles : lv[f] \in {len[f].d, len[f].v}
         /\ len' = [f \in CowFiles |-> [v |-> lv[f], d |-> lv[f]]]
    /\ \E w \in ({wal.d, wal.v} \cup (IF wal.v = "newblob" /\ wal.d # "newblob" THEN {"partial"} ELSE {})) :
         wal' = [v |-> w, d |-> w]
    /\ \E m \in {meta.d, meta.v} : meta' = [v |-> m, d |-> m]
    /\ \E r \in {seg.rec.d, seg.rec.v}, e \in {seg.dirent.d, seg.dirent.v}, o \in {seg.oldrec.d, seg.oldrec.v} :
         seg' = [rec |-> [v |-> r, d |-> r], dirent |-> [v |-> e, d |-> e], oldrec |-> [v |-> o, d |-> o]]
    /\ inflight' = {}
    /\ pc' = "down" /\ crashes' = crashes + 1 /\ rstep' = "meta" /\ rState' = "none"
    /\ poisoned' = FALSE
    /\ UNCHANGED <<written, synced, htSynced, walTruncPost>>

(***************************************************************************)
(* Recovery = Nomt::open on the image (bitbox/mod.rs:422 recover,          *)
(* seglog/mod.rs:649 open).  Its steps are I/O events too and can be       *)
(* interrupted by the next crash.                                          *)
(***************************************************************************)
\* C04: recovery must not act on a switch-over record that is not durable yet (after a process crash the
\* page cache may hold a meta page whose fsync never happened): it makes the meta page durable first.
RecoverReadMeta ==
    /\ pc = "down" /\ rstep = "meta"
    /\ pc' = "rec" /\ rState' = meta.v /\ rstep' = "wal"
    /\ meta' = IF G("recover-metasync") THEN meta ELSE [v |-> meta.v, d |-> meta.v]
    /\ UNCHANGED <<vol, dur, len, inflight, written, synced, wal, seg, htSynced, walTruncPost, crashes, poisoned>>

WalMatches == (wal.v = "newblob" /\ rState = "n") \/ (wal.v = "oldblob" /\ rState = "o")

\* the log is for another sync (or empty / torn with a foreign sequence number): discard it, fsynced
RecoverWalDiscard ==
    /\ pc = "rec" /\ rstep = "wal" /\ ~WalMatches
    /\ wal.v # "partial" \/ rState = "o"
    /\ wal' = [v |-> "empty", d |-> "empty"]
    /\ rstep' = "seg"
    /\ UNCHANGED <<pc, vol, dur, len, inflight, written, synced, meta, seg, htSynced, walTruncPost, crashes, rState, poisoned>>

RecoverWalStart ==
    /\ pc = "rec" /\ rstep = "wal" /\ WalMatches
    /\ rstep' = "apply" /\ htSynced' = FALSE
    /\ UNCHANGED <<pc, vol, dur, len, inflight, written, synced, wal, meta, seg, walTruncPost, crashes, rState, poisoned>>

\* redo: plain (unsynced) in-place page writes (bitbox/mod.rs:499)
RecoverWalApply(p) ==
    /\ pc = "rec" /\ rstep = "apply" /\ p \in HtChanged
    /\ vol["ht"][p] # (IF rState = "n" THEN "n" ELSE "o")
    /\ vol' = [vol EXCEPT !["ht"][p] = IF rState = "n" THEN "n" ELSE "o"]
    /\ UNCHANGED <<pc, dur, len, inflight, written, synced, wal, meta, seg, htSynced, walTruncPost, crashes, rstep, rState, poisoned>>

RecoverHtFsync ==
    /\ pc = "rec" /\ rstep = "apply"
    /\ \A p \in HtChanged : vol["ht"][p] = (IF rState = "n" THEN "n" ELSE "o")
    /\ dur' = [dur EXCEPT !["ht"] = vol["ht"]]
    /\ htSynced' = TRUE
    /\ UNCHANGED <<pc, vol, len, inflight, written, synced, wal, meta, seg, walTruncPost, crashes, rstep, rState, poisoned>>

\* C04: collapsing the log (truncate + fsync) requires the redone pages to be durable
RecoverWalCollapse ==
    /\ pc = "rec" /\ rstep = "apply"
    /\ \A p \in HtChanged : vol["ht"][p] = (IF rState = "n" THEN "n" ELSE "o")
    /\ G("recover-htsync") \/ htSynced
    /\ wal' = [v |-> "empty", d |-> "empty"]
    /\ rstep' = "seg"
    /\ UNCHANGED <<pc, vol, dur, len, inflight, written, synced, meta, seg, htSynced, walTruncPost, crashes, rState, poisoned>>

\* seglog recovery: records beyond the meta range are cut off; non-live segments removed
RecoverSeg ==
    /\ pc = "rec" /\ rstep = "seg"
    /\ seg' = IF rState = "o" THEN [seg EXCEPT !.rec = [v |-> FALSE, d |-> FALSE]]
              ELSE [seg EXCEPT !.oldrec = [v |-> IF PrunesOld THEN FALSE ELSE seg.oldrec.v,
                                           d |-> IF PrunesOld THEN FALSE ELSE seg.oldrec.d]]
    /\ rstep' = "done" /\ pc' = "up"
    /\ UNCHANGED <<vol, dur, len, inflight, written, synced, wal, meta, htSynced, walTruncPost, crashes, rState, poisoned>>

Next ==
    \/ SegCreate \/ SegAppend \/ SegFsync \/ SegDirSync
    \/ \E f \in CowFiles : Grow(f) \/ FsyncCow(f) \/ \E p \in Pages : SubmitWrite(f, p) \/ CompleteWrite(f, p)
    \/ WalTruncate \/ WalWrite \/ WalFsync
    \/ WriteMeta \/ FsyncMeta
    \/ \E p \in HtPages : SubmitHt(p) \/ CompleteWrite("ht", p)
    \/ FsyncHt \/ WalTruncatePost \/ SegPrune \/ SegPruneDurable \/ Return \/ IoFail
    \/ Crash \/ PowerLoss
    \/ RecoverReadMeta \/ RecoverWalDiscard \/ RecoverWalStart \/ \E p \in HtPages : RecoverWalApply(p)
    \/ RecoverHtFsync \/ RecoverWalCollapse \/ RecoverSeg

Spec == Init /\ [][Next]_vars

(***************************************************************************)
(* What a recovered image decodes to.                                      *)
(***************************************************************************)
\* the old state is intact in view w (a [file -> content] function) with the given lengths etc.
OldIntact(w) ==
    /\ \A f \in CowFiles : \A p \in LiveOld[f] : w[f][p] = "o"
    /\ \A p \in HtPages : w["ht"][p] = "o"
    /\ seg.oldrec.v

NewIntact(w) ==
    /\ \A f \in CowFiles :
         /\ \A p \in written[f] : w[f][p] = "n" /\ (p \in Beyond[f] => len[f].v = "long")
         /\ Cardinality(written[f]) = Need[f]
         /\ \A p \in KeepOld[f] : w[f][p] = "o"
    /\ \A p \in HtPages : w["ht"][p] = (IF p \in HtChanged THEN "n" ELSE "o")
    /\ WithRollback => (seg.rec.v /\ seg.dirent.v)

\* C03 / C04: once recovery has finished, the directory shows exactly the old or exactly the new state,
\* all parts from the same one, and the new one if the sync had returned success
OldOrNew ==
    pc = "up" =>
        /\ rState = "o" => OldIntact(vol)
        /\ rState = "n" => NewIntact(vol)

\* evaluated in the durable view as well: what a later power loss would leave is still consistent
DurableOldOrNew ==
    pc = "up" =>
        /\ rState = "o" => \A f \in CowFiles : \A p \in LiveOld[f] : dur[f][p] = "o"
        /\ rState = "n" => \A f \in CowFiles : \A p \in written[f] : dur[f][p] = "n"

\* recovery never meets a torn log that claims to belong to the current meta
NoTornLog == ~(pc = "rec" /\ rstep = "wal" /\ wal.v = "partial" /\ rState = "n")

\* success is durable: after Return every later recovery decides for the new state
ReturnedIsNew == [](pc = "ret" => [](pc = "up" => rState = "n"))

\* C17 as a state invariant: until the switch-over is durable no page of the old image differs
\* from its old content, in either view
NoOverwriteOfOld ==
    (pc = "run" /\ meta.d = "o" /\ crashes = 0) =>
        /\ \A f \in CowFiles : \A p \in LiveOld[f] : vol[f][p] = "o" /\ dur[f][p] = "o"
        /\ \A p \in HtPages : vol["ht"][p] = "o" /\ dur["ht"][p] = "o"
        /\ seg.oldrec.v

\* C14: a failed sync is reported, poisons, and the directory still decodes to old or new (by OldOrNew)
FailureIsReported == (pc = "failed") => poisoned
=============================================================================
