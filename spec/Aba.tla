-------------------------------- MODULE Aba --------------------------------
(***************************************************************************)
(* Finding F24 at design level: what a changeset knows besides values.     *)
(*                                                                         *)
(* A prepared changeset (FinishedSession / Overlay) carries, for every     *)
(* merkle page it rewrites, the hash-table bucket the page occupied when   *)
(* the session ran (bitbox BucketInfo::Known) - knowledge about the LAYOUT *)
(* of the store, not about its values.  lib.rs accepts a changeset when    *)
(* the store's root EQUALS the changeset's previous root.  Roots are       *)
(* values: after `commit; rollback` (or inverse writes) the root recurs    *)
(* while the layout has moved on (pages were cleared and re-created in     *)
(* other buckets).                                                         *)
(*                                                                         *)
(* State: the value of the store (a small integer standing for the map),   *)
(* a layout generation that every successful sync advances, a rollback     *)
(* log, and one prepared changeset.  With Guard = "by-value" (the code)    *)
(* TLC finds the trace prepare, commit, rollback, commit-the-changeset in  *)
(* which LayoutKnowledgeCurrent fails; with Guard = "epoch" (validity =    *)
(* same root AND no sync since the changeset was prepared) it holds.       *)
(***************************************************************************)
EXTENDS Naturals, Sequences

CONSTANTS Values,     \* abstract store contents
          Guard,      \* "by-value" (lib.rs) or "epoch"
          MaxSyncs

VARIABLES value,      \* current contents
          layout,     \* generation of the hash-table layout: advanced by every successful sync
          log,        \* rollback log: sequence of previous contents
          cs,         \* the prepared changeset, or NoCs
          applied     \* ghost: layout generation the last applied changeset was prepared against, and the one it met

vars == <<value, layout, log, cs, applied>>
NoCs == [st |-> "none"]

Init == value \in Values /\ layout = 0 /\ log = <<>> /\ cs = NoCs /\ applied = [prepared |-> 0, met |-> 0]

\* a session runs and is finished: the changeset remembers the root it is based on and the layout it saw
Prepare(v) ==
    /\ cs = NoCs /\ v \in Values /\ v # value
    /\ cs' = [st |-> "ready", base |-> value, new |-> v, sawLayout |-> layout]
    /\ UNCHANGED <<value, layout, log, applied>>

\* some other session is prepared and committed at once
OtherCommit(v) ==
    /\ layout < MaxSyncs /\ v \in Values /\ v # value
    /\ log' = Append(log, value) /\ value' = v /\ layout' = layout + 1
    /\ UNCHANGED <<cs, applied>>

Rollback ==
    /\ layout < MaxSyncs /\ log # <<>>
    /\ value' = log[Len(log)] /\ log' = SubSeq(log, 1, Len(log) - 1) /\ layout' = layout + 1
    /\ UNCHANGED <<cs, applied>>

Valid == IF Guard = "by-value" THEN cs.base = value
         ELSE cs.base = value /\ cs.sawLayout = layout

CommitChangeset ==
    /\ cs # NoCs /\ layout < MaxSyncs
    /\ IF Valid
       THEN /\ log' = Append(log, value) /\ value' = cs.new /\ layout' = layout + 1
            /\ applied' = [prepared |-> cs.sawLayout, met |-> layout]
       ELSE UNCHANGED <<value, layout, log, applied>>      \* "Changeset no longer valid"
    /\ cs' = NoCs

Next == (\E v \in Values : Prepare(v) \/ OtherCommit(v)) \/ Rollback \/ CommitChangeset
Spec == Init /\ [][Next]_vars

\* C16: a changeset is only ever applied to the layout it was prepared against
LayoutKnowledgeCurrent == applied.prepared = applied.met
=============================================================================
