------------------------------ MODULE AllocTrace ------------------------------
(***************************************************************************)
(* Consecutive decoder snapshots of the value files (ln, bbn) of one run   *)
(* must be related by Alloc!Step: pages that become live or free-list      *)
(* pages were free, free-list pages or fresh; released pages are reclaimed;*)
(* the partition is complete (C16 no double use, C19 no leak / reuse).     *)
(***************************************************************************)
EXTENDS Alloc, Sequences, Json, IOUtils

Rec == ndJsonDeserialize(IOEnv.TRACE)
VARIABLE l

SetOf(s) == {s[i] : i \in 1..Len(s)}

PairOk(r) ==
    /\ Step(SetOf(r.a.live), SetOf(r.a.free), SetOf(r.a.fl), r.a.bump,
            SetOf(r.b.live), SetOf(r.b.free), SetOf(r.b.fl), r.b.bump)
    \* the partition of each snapshot: pairwise disjoint
    /\ SetOf(r.b.live) \cap SetOf(r.b.free) = {} /\ SetOf(r.b.live) \cap SetOf(r.b.fl) = {}
    /\ SetOf(r.b.free) \cap SetOf(r.b.fl) = {}
    \* frontier: an emptied store does not keep growing (r.grew is set by the driver for fill/empty cycles)
    /\ ("frontierOk" \in DOMAIN r) => r.frontierOk

TInit == l = 1 /\ live = {} /\ free = {} /\ fl = {} /\ bump = 1
TNext == /\ l <= Len(Rec)
         /\ IF PairOk(Rec[l]) THEN TRUE ELSE PrintT(<<"BAD-RECORD", l>>)
         /\ l' = l + 1 /\ UNCHANGED vars
TSpec == TInit /\ [][TNext]_<<l, vars>>

Finished ==
    LET d == TLCGet("stats").diameter IN
    IF d - 1 = Len(Rec) THEN PrintT(<<"TRACE-COMPLETE", Len(Rec)>>)
    ELSE Print(<<"TRACE-INCOMPLETE", d>>, FALSE)
=============================================================================
