------------------------------ MODULE AllocTrace ------------------------------
(***************************************************************************)
(* Consecutive decoder snapshots of the value files (ln, bbn) of one run   *)
(* must be related by Alloc!Step: pages that become live or free-list      *)
(* pages were free, free-list pages or fresh; released pages are reclaimed;*)
(* the partition is complete (C16 no double use, C19 no leak / reuse).     *)
(***************************************************************************)
EXTENDS Alloc, Sequences, Json, IOUtils

Rec == ndJsonDeserialize(IOEnv.TRACE)
VARIABLE l

SetOf(s) == {s[i] : i \in 1..Len(s)}

PairOk(r) ==
    /\ Step(SetOf(r.a.live), SetOf(r.a.free), SetOf(r.a.fl), r.a.bump,
            SetOf(r.b.live), SetOf(r.b.free), SetOf(r.b.fl), r.b.bump)
    \* the partition of each snapshot: pairwise disjoint
    /\ SetOf(r.b.live) \cap SetOf(r.b.free) = {} /\ SetOf(r.b.live) \cap SetOf(r.b.fl) = {}
    /\ SetOf(r.b.free) \cap SetOf(r.b.fl) = {}
    \* frontier: an emptied store does not keep growing (r.grew is set by the driver for fill/empty cycles)
    /\ ("frontierOk" \in DOMAIN r) => r.frontierOk

\* fill / overwrite / empty cycles (C19): the allocation frontier after the i-th emptying does not keep growing:
\* it stays within the frontier after the first emptying plus the pages the free lists themselves need
CycleOk(r) ==
    \A i \in 2..Len(r.bumps) : r.bumps[i] <= r.bumps[1] + r.slack

RecOk(r) == IF "bumps" \in DOMAIN r THEN CycleOk(r) ELSE PairOk(r)

TInit == l = 1 /\ live = {} /\ free = {} /\ fl = {} /\ bump = 1
TNext == /\ l <= Len(Rec)
         /\ IF RecOk(Rec[l]) THEN TRUE ELSE PrintT(<<"BAD-RECORD", l>>)
         /\ l' = l + 1 /\ UNCHANGED vars
TSpec == TInit /\ [][TNext]_<<l, vars>>

Finished ==
    LET d == TLCGet("stats").diameter IN
    IF d - 1 = Len(Rec) THEN PrintT(<<"TRACE-COMPLETE", Len(Rec)>>)
    ELSE Print(<<"TRACE-INCOMPLETE", d>>, FALSE)
=============================================================================
