------------------------------- MODULE NomtApi -------------------------------
(***************************************************************************)
(* The sequential API machine of NOMT (thrumdev/nomt, nomt/src/lib.rs).    *)
(*                                                                         *)
(* One action per public call *outcome*.  The state is what a user can     *)
(* observe or what later outcomes depend on:                               *)
(*   - the committed key-value map  (beatree + staging, beatree/mod.rs)    *)
(*   - the root                     (lib.rs:62 Shared.root)                *)
(*   - the sync sequence number     (store/sync.rs:41)                     *)
(*   - the rollback log in its three incarnations: the in-memory ring      *)
(*     (rollback/mod.rs:45), the seglog object's live range                *)
(*     (seglog/mod.rs:160) and the range recorded in the meta page         *)
(*     (store/meta.rs:42)                                                  *)
(*   - the overlay forest (overlay.rs), the last-committed-overlay marker  *)
(*     (lib.rs:66), live sessions (lib.rs:478) and finished changesets     *)
(*     (lib.rs:623)                                                        *)
(*   - the poison flag (store/mod.rs:48) and the durable image `disk`.     *)
(*                                                                         *)
(* A root is modelled by the map it commits to (collision resistance +     *)
(* Trie.tla: Root is injective on maps).  `kv` and `root` are *separate*   *)
(* variables because the code updates them separately (values through the  *)
(* value transaction, the root from the changeset's pre-computed root):    *)
(* RootCanonical (root = kv) is therefore a real consequence of the        *)
(* previous-root check, not a definition.                                  *)
(***************************************************************************)
EXTENDS Naturals, Sequences, FiniteSets, TLC

CONSTANTS
    Keys,            \* model keys (strings)
    Vals,            \* model values (strings), Nil/NoCh excluded
    MaxLog,          \* Options::max_rollback_log_len
    RollbackOn,      \* Options::rollback
    MaxOvl,          \* bound: overlay identifiers 1..MaxOvl
    MaxFin,          \* bound: finished-session identifiers 1..MaxFin
    MaxSess,         \* bound: session identifiers 1..MaxSess
    MaxSeqn,         \* bound on sync sequence number (state constraint)
    Faults,          \* BOOLEAN: are crash / I/O-failure actions enabled
    AllowUngrounded  \* BOOLEAN: may a session be begun on an overlay chain whose base is not the
                     \*   committed state (the code accepts it; see finding F13)

Nil  == "Nil"        \* key absent
NoCh == "NoCh"       \* key not touched by a batch / not present in a delta
ValN == Vals \cup {Nil}
Maps == [Keys -> ValN]
Batches == [Keys -> ValN \cup {NoCh}]
EmptyMap == [k \in Keys |-> Nil]
NoBatch  == [k \in Keys |-> NoCh]

Apply(m, b)  == [k \in Keys |-> IF b[k] = NoCh THEN m[k] ELSE b[k]]
\* reverse delta of batch b against the view m (rollback/mod.rs:419-441)
Priors(m, b) == [k \in Keys |-> IF b[k] = NoCh THEN NoCh ELSE m[k]]

VARIABLES
    handle,      \* "open" | "closed"
    kv,          \* committed values
    root,        \* committed root, as the map it commits to
    seqn,        \* sync sequence number
    memLog,      \* in-memory ring, oldest first; entry = [d: reverse delta, pre: ghost - the map before that commit]
    segLog,      \* deltas in the seglog object's live range
    pendTrunc,   \* number of most recent seglog records to cut at the next sync (0 = none)
    avail,       \* ghost: number of most recent commits the user is entitled to undo
    ovl,         \* overlays
    marker,      \* id of last committed overlay, 0 = None
    sess,        \* sessions
    fin,         \* finished sessions
    poisoned,
    disk         \* durable image: [kv, seqn, log]  (log = deltas in meta's live range)

vars == <<handle, kv, root, seqn, memLog, segLog, pendTrunc, avail,
          ovl, marker, sess, fin, poisoned, disk>>

OvlIds  == 1..MaxOvl
FinIds  == 1..MaxFin
SessIds == 1..MaxSess

NoOvl  == [st |-> "none", parent |-> 0, anc |-> <<>>, base |-> EmptyMap, map |-> EmptyMap,
           w |-> NoBatch, d |-> NoBatch, rb |-> FALSE]
NoSess == [st |-> "none", view |-> EmptyMap, prev |-> EmptyMap, chain |-> <<>>, rb |-> FALSE,
           valid |-> TRUE]
NoFin  == [st |-> "none", base |-> EmptyMap, map |-> EmptyMap, w |-> NoBatch, d |-> NoBatch,
           chain |-> <<>>, rb |-> FALSE]

Min(a, b) == IF a < b THEN a ELSE b
Max(a, b) == IF a > b THEN a ELSE b
Last(s)   == s[Len(s)]
Front(s)  == SubSeq(s, 1, Len(s) - 1)
DropLast(s, n) == SubSeq(s, 1, Len(s) - n)
TakeLast(s, n) == SubSeq(s, Len(s) - n + 1, Len(s))
SeqRange(s) == {s[i] : i \in 1..Len(s)}

(***************************************************************************)
(* Rollback::truncate (rollback/mod.rs:206): pop the n most recent deltas, *)
(* newest first, `traceback.insert(key, prior)` - so for a key touched by  *)
(* several of them the OLDEST prior wins.                                  *)
(***************************************************************************)
RECURSIVE TB(_, _, _)
TB(log, n, acc) ==
    IF n = 0 THEN acc
    ELSE LET d == Last(log).d
         IN TB(Front(log), n - 1, [k \in Keys |-> IF d[k] # NoCh THEN d[k] ELSE acc[k]])
Traceback(log, n) == TB(log, n, NoBatch)

(***************************************************************************)
(* Overlay helpers                                                         *)
(***************************************************************************)
\* Arc<Data> of overlay o is still alive: the user holds the Overlay, or a live
\* session / finished session holds it in its LiveOverlay (overlay.rs:249).
DataAlive(o) ==
    \/ ovl[o].st = "live"
    \/ \E s \in SessIds : sess[s].st = "live" /\ o \in SeqRange(sess[s].chain)
    \/ \E f \in FinIds  : fin[f].st = "ready" /\ o \in SeqRange(fin[f].chain)

\* LiveOverlay::new (overlay.rs:254): c is the user-supplied list, newest first.
\* Returns <<verdict, effective chain>>.
RECURSIVE ChainScan(_, _, _)
ChainScan(c, anc, i) ==
    \* i = index into c (>= 2); anc = ancestor list of c[1]
    IF i > Len(c) \/ i - 1 > Len(anc) THEN "Ok"
    ELSE IF ~DataAlive(anc[i - 1]) THEN "Incomplete"
    ELSE IF c[i] # anc[i - 1] THEN "NotAncestor"
    ELSE ChainScan(c, anc, i + 1)

EffLen(c) == IF c = <<>> THEN 0 ELSE Min(Len(c), 1 + Len(ovl[c[1]].anc))
EffChain(c) == SubSeq(c, 1, EffLen(c))

ChainVerdict(c) ==
    IF c = <<>> THEN "Ok"
    ELSE LET v == ChainScan(c, ovl[c[1]].anc, 2) IN
         IF v # "Ok" THEN v
         ELSE LET lst == ovl[Last(EffChain(c))] IN
              IF lst.parent # 0 /\ ovl[lst.parent].st # "committed" THEN "Incomplete" ELSE "Ok"

\* the view through an accepted chain (newest first): apply oldest first
RECURSIVE ViewThrough(_, _)
ViewThrough(m, c) == IF c = <<>> THEN m
                     ELSE Apply(ViewThrough(m, Tail(c)), ovl[c[1]].w)

FreeOvl  == {o \in OvlIds  : ovl[o].st  = "none"}
FreeFin  == {f \in FinIds  : fin[f].st  = "none"}
FreeSess == {s \in SessIds : sess[s].st = "none"}
LiveSessions == {s \in SessIds : sess[s].st = "live"}
IsOpen == handle = "open"

(***************************************************************************)
(* Initial state: a freshly created, opened, empty store.                  *)
(***************************************************************************)
Init ==
    /\ handle = "open"
    /\ kv = EmptyMap /\ root = EmptyMap /\ seqn = 0
    /\ memLog = <<>> /\ segLog = <<>> /\ pendTrunc = 0
    /\ avail = 0
    /\ ovl = [o \in OvlIds |-> NoOvl] /\ marker = 0
    /\ sess = [s \in SessIds |-> NoSess]
    /\ fin = [f \in FinIds |-> NoFin]
    /\ poisoned = FALSE
    /\ disk = [kv |-> EmptyMap, seqn |-> 0, log |-> <<>>]

(***************************************************************************)
(* Sessions                                                                *)
(***************************************************************************)
\* SessionParams::overlay(chain) refused (lib.rs:462): nothing changes.
BuildOnChainRefused(c, verdict) ==
    /\ IsOpen
    /\ c # <<>> /\ \A i \in 1..Len(c) : ovl[c[i]].st = "live"
    /\ verdict = ChainVerdict(c) /\ verdict # "Ok"
    /\ UNCHANGED vars

\* Nomt::begin_session (lib.rs:306).  The session takes the access read lock.
BeginSession(s, c) ==
    /\ IsOpen
    /\ s \in FreeSess /\ \A x \in FreeSess : s <= x            \* ids are handed out in order
    /\ \A i \in 1..Len(c) : ovl[c[i]].st = "live"
    /\ \A i, j \in 1..Len(c) : i # j => c[i] # c[j]
    /\ ChainVerdict(c) = "Ok"
    /\ LET ec == EffChain(c)
           \* the chain is grounded iff the state below its oldest member is the committed one
           grounded == IF ec = <<>> THEN TRUE ELSE ovl[Last(ec)].base = root
           \* lib.rs:325: the previous root is the newest overlay's root, else the committed root
           prev == IF ec = <<>> THEN root ELSE ovl[ec[1]].map
       IN /\ IF grounded THEN TRUE ELSE AllowUngrounded
          /\ sess' = [sess EXCEPT ![s] = [st |-> "live", view |-> ViewThrough(kv, ec), prev |-> prev,
                                          chain |-> ec, rb |-> RollbackOn, valid |-> grounded]]
    /\ UNCHANGED <<handle, kv, root, seqn, memLog, segLog, pendTrunc, avail, ovl, marker,
                   fin, poisoned, disk>>

\* dropping a session without finishing it
DropSession(s) ==
    /\ sess[s].st = "live"
    /\ sess' = [sess EXCEPT ![s] = NoSess]
    /\ UNCHANGED <<handle, kv, root, seqn, memLog, segLog, pendTrunc, avail, ovl, marker,
                   fin, poisoned, disk>>

\* Session::finish (lib.rs:569): consumes the session (releasing the read lock), yields a
\* changeset whose previous root is the session's and whose delta holds the priors of the view.
Finish(s, f, b) ==
    /\ sess[s].st = "live"
    /\ f \in FreeFin /\ \A x \in FreeFin : f <= x
    /\ fin' = [fin EXCEPT ![f] = [st |-> "ready", base |-> sess[s].prev, map |-> Apply(sess[s].prev, b),
                                  w |-> b, d |-> Priors(sess[s].view, b), chain |-> sess[s].chain,
                                  rb |-> sess[s].rb]]
    /\ sess' = [sess EXCEPT ![s] = NoSess]
    /\ UNCHANGED <<handle, kv, root, seqn, memLog, segLog, pendTrunc, avail, ovl, marker,
                   poisoned, disk>>

DropFinished(f) ==
    /\ fin[f].st = "ready"
    /\ fin' = [fin EXCEPT ![f] = NoFin]
    /\ UNCHANGED <<handle, kv, root, seqn, memLog, segLog, pendTrunc, avail, ovl, marker,
                   sess, poisoned, disk>>

(***************************************************************************)
(* The sync (store/sync.rs:31) as seen from the API: one atomic step here, *)
(* refined into I/O events by NomtSync.tla.                                *)
(*   writeout_start (rollback/mod.rs:255):                                 *)
(*     pending truncate -> meta range = seglog range cut at the new end    *)
(*     else if the ring is over-long -> pop ONE oldest; the meta page      *)
(*       still records the un-pruned seglog range (one-sync lag)           *)
(*   writeout_end (:298): prune the seglog accordingly.                    *)
(* SyncLogs(mem, seg, pt) = <<mem', seg', metaLog'>>                        *)
(***************************************************************************)
SyncLogs(mem, seg, pt) ==
    IF ~RollbackOn THEN <<mem, seg, <<>>>>
    ELSE IF pt > 0 THEN <<mem, DropLast(seg, pt), DropLast(seg, pt)>>
    ELSE IF Len(mem) > MaxLog THEN <<Tail(mem), TakeLast(seg, Len(mem) - 1), seg>>
    ELSE <<mem, seg, seg>>

\* the part of every successful commit that is common to sessions and overlays
\*   b = batch, d = reverse delta (or NoBatch when none is recorded), rb = delta recorded
DoCommit(b, newRoot, d, rb) ==
    LET e    == [d |-> d, pre |-> kv]
        mem1 == IF rb THEN Append(memLog, e) ELSE memLog
        seg1 == IF rb THEN Append(segLog, e) ELSE segLog
        logs == SyncLogs(mem1, seg1, 0)
    IN /\ kv' = Apply(kv, b)
       /\ root' = newRoot
       /\ seqn' = seqn + 1
       /\ memLog' = logs[1] /\ segLog' = logs[2] /\ pendTrunc' = 0
       /\ avail' = IF rb THEN Min(avail + 1, MaxLog) ELSE avail
       /\ disk' = [kv |-> Apply(kv, b), seqn |-> seqn + 1, log |-> logs[3]]

\* FinishedSession::commit (lib.rs:678): needs the access write lock -> no live session.
Commit(f) ==
    /\ IsOpen /\ fin[f].st = "ready" /\ LiveSessions = {}
    /\ ~poisoned
    /\ fin[f].base = root                                  \* previous-root check (lib.rs:683)
    /\ DoCommit(fin[f].w, fin[f].map, fin[f].d, fin[f].rb)
    /\ marker' = 0
    /\ fin' = [fin EXCEPT ![f] = NoFin]
    /\ UNCHANGED <<handle, ovl, sess, poisoned>>

\* rejected: the changeset's base is no longer the current state.  NO effect (C12).
CommitStale(f) ==
    /\ IsOpen /\ fin[f].st = "ready" /\ LiveSessions = {}
    /\ fin[f].base # root
    /\ fin' = [fin EXCEPT ![f] = NoFin]                    \* consumed by the call
    /\ UNCHANGED <<handle, kv, root, seqn, memLog, segLog, pendTrunc, avail, ovl, marker,
                   sess, poisoned, disk>>

\* the store refuses because it is poisoned (store/mod.rs:283); the root check comes first.
CommitPoisoned(f) ==
    /\ IsOpen /\ fin[f].st = "ready" /\ LiveSessions = {}
    /\ poisoned /\ fin[f].base = root
    /\ fin' = [fin EXCEPT ![f] = NoFin]
    /\ UNCHANGED <<handle, kv, root, seqn, memLog, segLog, pendTrunc, avail, ovl, marker,
                   sess, poisoned, disk>>

\* FinishedSession::try_commit_nonblocking (lib.rs:716)
TryCommitDone(f) ==
    /\ IsOpen /\ fin[f].st = "ready" /\ LiveSessions = {}
    /\ ~poisoned
    /\ fin[f].base = root
    /\ DoCommit(fin[f].w, fin[f].map, fin[f].d, fin[f].rb)
    /\ marker' = 0
    /\ fin' = [fin EXCEPT ![f] = NoFin]
    /\ UNCHANGED <<handle, ovl, sess, poisoned>>

\* other sessions alive: the changeset is handed back, nothing else happens (C12)
TryCommitHandedBack(f) ==
    /\ IsOpen /\ fin[f].st = "ready" /\ LiveSessions # {}
    /\ UNCHANGED vars

TryCommitStale(f) ==
    /\ IsOpen /\ fin[f].st = "ready" /\ LiveSessions = {}
    /\ fin[f].base # root
    /\ fin' = [fin EXCEPT ![f] = NoFin]
    /\ UNCHANGED <<handle, kv, root, seqn, memLog, segLog, pendTrunc, avail, ovl, marker,
                   sess, poisoned, disk>>

(***************************************************************************)
(* Overlays                                                                *)
(***************************************************************************)
\* FinishedSession::into_overlay (lib.rs:654)
IntoOverlay(f, o) ==
    /\ fin[f].st = "ready" /\ o \in FreeOvl
    /\ \A x \in FreeOvl : o <= x                                \* ids are handed out in order
    /\ ovl' = [ovl EXCEPT ![o] = [st |-> "live",
                                  parent |-> IF fin[f].chain = <<>> THEN 0 ELSE fin[f].chain[1],
                                  anc |-> fin[f].chain, base |-> fin[f].base, map |-> fin[f].map,
                                  w |-> fin[f].w, d |-> fin[f].d, rb |-> fin[f].rb]]
    /\ fin' = [fin EXCEPT ![f] = NoFin]
    /\ UNCHANGED <<handle, kv, root, seqn, memLog, segLog, pendTrunc, avail, marker,
                   sess, poisoned, disk>>

\* dropping an Overlay the user holds (overlay.rs:226 Data::drop -> status.drop()).
\* The status only changes when the data really goes away; while a session still holds the
\* Arc the status stays LIVE - modelled by keeping "live" semantics through DataAlive.
DropOverlay(o) ==
    /\ ovl[o].st = "live"
    /\ ovl' = [ovl EXCEPT ![o].st = "dropped"]
    /\ UNCHANGED <<handle, kv, root, seqn, memLog, segLog, pendTrunc, avail, marker,
                   sess, fin, poisoned, disk>>

ParentOk(o) == ovl[o].parent = 0 \/ ovl[o].parent = marker     \* lib.rs:771 parent_matches_marker

\* Overlay::commit (lib.rs:770)
OverlayCommit(o) ==
    /\ IsOpen /\ ovl[o].st = "live" /\ LiveSessions = {}
    /\ ~poisoned
    /\ ParentOk(o)
    /\ ovl[o].base = root
    /\ DoCommit(ovl[o].w, ovl[o].map, ovl[o].d, ovl[o].rb)
    /\ marker' = o
    /\ ovl' = [ovl EXCEPT ![o].st = "committed"]
    /\ UNCHANGED <<handle, sess, fin, poisoned>>

\* refused: parent not committed.  Checked before any lock is taken; the overlay is consumed
\* by the call and therefore dropped.
OverlayCommitParentNotCommitted(o) ==
    /\ IsOpen /\ ovl[o].st = "live"
    /\ ~ParentOk(o)
    /\ ovl' = [ovl EXCEPT ![o].st = "dropped"]
    /\ UNCHANGED <<handle, kv, root, seqn, memLog, segLog, pendTrunc, avail, marker,
                   sess, fin, poisoned, disk>>

\* refused: stale.  INTENDED behaviour: no effect; the consumed overlay counts as dropped,
\* never as committed (the code marks it COMMITTED first: finding F2).
OverlayCommitStale(o) ==
    /\ IsOpen /\ ovl[o].st = "live" /\ LiveSessions = {}
    /\ ParentOk(o)
    /\ ovl[o].base # root
    /\ ovl' = [ovl EXCEPT ![o].st = "dropped"]
    /\ UNCHANGED <<handle, kv, root, seqn, memLog, segLog, pendTrunc, avail, marker,
                   sess, fin, poisoned, disk>>

OverlayCommitPoisoned(o) ==
    /\ IsOpen /\ ovl[o].st = "live" /\ LiveSessions = {}
    /\ poisoned /\ ParentOk(o) /\ ovl[o].base = root
    /\ ovl' = [ovl EXCEPT ![o].st = "dropped"]
    /\ UNCHANGED <<handle, kv, root, seqn, memLog, segLog, pendTrunc, avail, marker,
                   sess, fin, poisoned, disk>>

\* Overlay::try_commit_nonblocking (lib.rs:822)
OverlayTryCommitDone(o) ==
    /\ IsOpen /\ ovl[o].st = "live" /\ LiveSessions = {}
    /\ ~poisoned
    /\ ParentOk(o)
    /\ ovl[o].base = root
    /\ DoCommit(ovl[o].w, ovl[o].map, ovl[o].d, ovl[o].rb)
    /\ marker' = o
    /\ ovl' = [ovl EXCEPT ![o].st = "committed"]
    /\ UNCHANGED <<handle, sess, fin, poisoned>>

OverlayTryCommitHandedBack(o) ==
    /\ IsOpen /\ ovl[o].st = "live" /\ LiveSessions # {}
    /\ ParentOk(o)
    /\ UNCHANGED vars

(***************************************************************************)
(* Rollback (lib.rs:354)                                                   *)
(***************************************************************************)
\* Served.  Mandatory when n <= avail (invariant AvailRetained makes it enabled then).
Rollback(n) ==
    /\ IsOpen /\ LiveSessions = {} /\ RollbackOn
    /\ ~poisoned
    /\ n \in 1..Len(memLog)
    /\ LET tb   == Traceback(memLog, n)
           mem1 == DropLast(memLog, n)
           logs == SyncLogs(mem1, segLog, n)
       IN /\ kv' = Apply(kv, tb)
          /\ root' = Apply(root, tb)      \* the rollback session computes the root from its view
          /\ seqn' = seqn + 1
          /\ memLog' = logs[1] /\ segLog' = logs[2] /\ pendTrunc' = 0
          /\ avail' = IF n <= avail THEN avail - n ELSE 0
          /\ disk' = [kv |-> Apply(kv, tb), seqn |-> seqn + 1, log |-> logs[3]]
    /\ marker' = 0
    /\ UNCHANGED <<handle, ovl, sess, fin, poisoned>>

\* Not served: fails without changing anything (C09).
RollbackRefused(n) ==
    /\ IsOpen /\ LiveSessions = {}
    /\ n >= 1
    /\ ~RollbackOn \/ n > Len(memLog)
    /\ UNCHANGED vars

\* the store refuses because it is poisoned (the in-memory ring is already popped by then, but a
\* poisoned handle is only good for dropping, so that damage is not modelled)
RollbackPoisoned(n) ==
    /\ IsOpen /\ LiveSessions = {} /\ RollbackOn /\ poisoned
    /\ n \in 1..Len(memLog)
    /\ UNCHANGED vars

\* rollback(0) is a no-op success
RollbackZero ==
    /\ IsOpen
    /\ UNCHANGED vars

(***************************************************************************)
(* Close / reopen                                                          *)
(***************************************************************************)
\* dropping the handle: sessions, changesets and overlays cannot outlive it in the driver
Close ==
    /\ IsOpen /\ LiveSessions = {}
    /\ handle' = "closed"
    /\ sess' = [s \in SessIds |-> NoSess]
    /\ fin' = [f \in FinIds |-> NoFin]
    /\ ovl' = [o \in OvlIds |-> NoOvl]
    /\ marker' = 0
    /\ UNCHANGED <<kv, root, seqn, memLog, segLog, pendTrunc, avail, poisoned, disk>>

\* Nomt::open on an existing directory: everything is rebuilt from the durable image.
Reopen ==
    /\ handle = "closed"
    /\ handle' = "open"
    /\ kv' = disk.kv /\ root' = disk.kv /\ seqn' = disk.seqn
    \* Records of the meta range beyond the user's entitlement (the one-sync pruning lag) may or may
    \* not still be readable: their segment file can already have been unlinked.  The specification
    \* therefore only promises the entitled suffix.
    /\ \E keep \in Min(avail, Len(disk.log))..Len(disk.log) :
          /\ memLog' = TakeLast(disk.log, keep)
          /\ segLog' = TakeLast(disk.log, keep)
    /\ pendTrunc' = 0
    /\ poisoned' = FALSE
    /\ avail' = Min(avail, Len(disk.log))
    /\ UNCHANGED <<ovl, marker, sess, fin, disk>>

(***************************************************************************)
(* Faults (abstract face of C03 / C14; refined by NomtSync.tla)            *)
(***************************************************************************)
\* the image a sync with batch b / delta d would make durable
NewDisk(b, d, rb) ==
    LET e    == [d |-> d, pre |-> kv]
        mem1 == IF rb THEN Append(memLog, e) ELSE memLog
        seg1 == IF rb THEN Append(segLog, e) ELSE segLog
    IN [kv |-> Apply(kv, b), seqn |-> seqn + 1, log |-> SyncLogs(mem1, seg1, 0)[3]]

\* A commit whose sync hits an I/O error: reported, poisons, durable image old or new (C14).
\* In memory the root (and the ring) may already be ahead of the values: the handle is only good
\* for dropping.  `new` is TRUE iff the switch-over became durable.
CommitFails(f, new) ==
    /\ Faults /\ IsOpen /\ fin[f].st = "ready" /\ LiveSessions = {} /\ ~poisoned
    /\ fin[f].base = root
    /\ poisoned' = TRUE
    /\ disk' = IF new THEN NewDisk(fin[f].w, fin[f].d, fin[f].rb) ELSE disk
    /\ avail' = IF new /\ fin[f].rb THEN Min(avail + 1, MaxLog) ELSE avail
    /\ fin' = [fin EXCEPT ![f] = NoFin]
    /\ UNCHANGED <<handle, kv, root, seqn, memLog, segLog, pendTrunc, ovl, marker, sess>>

\* The process dies inside a commit: durable image old or new, all volatile state gone.
CommitCrashes(f, new) ==
    /\ Faults /\ IsOpen /\ fin[f].st = "ready" /\ LiveSessions = {} /\ ~poisoned
    /\ fin[f].base = root
    /\ handle' = "closed"
    /\ disk' = IF new THEN NewDisk(fin[f].w, fin[f].d, fin[f].rb) ELSE disk
    /\ avail' = IF new /\ fin[f].rb THEN Min(avail + 1, MaxLog) ELSE avail
    /\ sess' = [s \in SessIds |-> NoSess]
    /\ fin' = [g \in FinIds |-> NoFin]
    /\ ovl' = [o \in OvlIds |-> NoOvl]
    /\ marker' = 0
    /\ UNCHANGED <<kv, root, seqn, memLog, segLog, pendTrunc, poisoned>>

\* The process dies outside any operation (or the poisoned handle is dropped).
Crash ==
    /\ Faults /\ IsOpen
    /\ handle' = "closed"
    /\ sess' = [s \in SessIds |-> NoSess]
    /\ fin' = [g \in FinIds |-> NoFin]
    /\ ovl' = [o \in OvlIds |-> NoOvl]
    /\ marker' = 0
    /\ UNCHANGED <<kv, root, seqn, memLog, segLog, pendTrunc, avail, poisoned, disk>>

(***************************************************************************)
(* Next                                                                    *)
(***************************************************************************)
Chains == UNION {[1..n -> OvlIds] : n \in 0..MaxOvl}

Next ==
    \/ \E s \in SessIds, c \in Chains : BeginSession(s, c)
    \/ \E c \in Chains, v \in {"Incomplete", "NotAncestor"} : BuildOnChainRefused(c, v)
    \/ \E s \in SessIds : DropSession(s)
    \/ \E s \in SessIds, f \in FinIds, b \in Batches : Finish(s, f, b)
    \/ \E f \in FinIds : \/ DropFinished(f)
                         \/ Commit(f) \/ CommitStale(f) \/ CommitPoisoned(f)
                         \/ TryCommitDone(f) \/ TryCommitHandedBack(f) \/ TryCommitStale(f)
                         \/ \E o \in OvlIds : IntoOverlay(f, o)
                         \/ \E new \in BOOLEAN : CommitFails(f, new) \/ CommitCrashes(f, new)
    \/ \E o \in OvlIds : \/ DropOverlay(o)
                         \/ OverlayCommit(o) \/ OverlayCommitParentNotCommitted(o)
                         \/ OverlayCommitStale(o) \/ OverlayCommitPoisoned(o)
                         \/ OverlayTryCommitDone(o) \/ OverlayTryCommitHandedBack(o)
    \/ \E n \in 1..(MaxLog + 2) : Rollback(n) \/ RollbackRefused(n) \/ RollbackPoisoned(n)
    \/ Close \/ Reopen \/ Crash

Spec == Init /\ [][Next]_vars

(***************************************************************************)
(* Properties                                                              *)
(***************************************************************************)
TypeOK ==
    /\ handle \in {"open", "closed"}
    /\ kv \in Maps /\ root \in Maps /\ seqn \in Nat
    /\ \A i \in 1..Len(memLog) : memLog[i].d \in Batches /\ memLog[i].pre \in Maps
    /\ avail \in 0..MaxLog
    /\ marker \in 0..MaxOvl
    /\ poisoned \in BOOLEAN

\* C02 (history independence at the API level): the root always commits to exactly the values.
\* While the handle is poisoned the in-memory state is explicitly undefined (lib.rs:283).
RootCanonical == (IsOpen /\ ~poisoned) => root = kv

\* C01/C10: what is durable is what is visible (no fault in flight).
DurableIsVisible == (IsOpen /\ ~poisoned) => (disk.kv = kv /\ disk.seqn = seqn)

\* C09: every retained delta prefix restores exactly the map the ghost history recorded.
LogMatchesHist ==
    (IsOpen /\ ~poisoned /\ RollbackOn) =>
        \A n \in 1..Len(memLog) : Apply(kv, Traceback(memLog, n)) = memLog[Len(memLog) - n + 1].pre

\* C09/C10: the entitlement is retained, in memory and in the durable image.
AvailRetained ==
    (IsOpen /\ ~poisoned /\ RollbackOn) =>
        /\ avail <= Len(memLog)
        /\ avail <= Len(disk.log)
        /\ TakeLast(disk.log, avail) = TakeLast(memLog, avail)

\* the retained log never exceeds what the meta page of the last sync recorded plus the lag
LogBounded == RollbackOn => Len(memLog) <= Len(disk.log) + 1

\* C10: closing and reopening is a stuttering step on everything observable
ReopenTransparent ==
    (IsOpen /\ ~poisoned) =>
        /\ disk.kv = kv /\ disk.seqn = seqn
        /\ RollbackOn => \A n \in 1..avail :
              Apply(disk.kv, Traceback(disk.log, n)) = Apply(kv, Traceback(memLog, n))

\* C11: a session's view through an accepted, grounded chain equals the newest overlay's map,
\* and a committed overlay leaves the store in the state its root commits to.
OverlayEquivalence ==
    /\ \A s \in SessIds : (sess[s].st = "live" /\ sess[s].valid /\ sess[s].chain # <<>>) =>
            sess[s].view = ovl[sess[s].chain[1]].map
    /\ (IsOpen /\ ~poisoned /\ marker # 0) => kv = ovl[marker].map

\* C11: the marker always names a committed overlay
MarkerCommitted == marker # 0 => ovl[marker].st = "committed"

\* C12 as an action property: every rejected / deferred outcome leaves all state alone.
Rejected ==
    \/ \E f \in FinIds : CommitStale(f) \/ TryCommitStale(f) \/ TryCommitHandedBack(f) \/ CommitPoisoned(f)
    \/ \E o \in OvlIds : OverlayCommitStale(o) \/ OverlayCommitParentNotCommitted(o)
                         \/ OverlayTryCommitHandedBack(o) \/ OverlayCommitPoisoned(o)
    \/ \E n \in 1..(MaxLog + 2) : RollbackRefused(n)
RejectedIsNoOp ==
    [][Rejected => UNCHANGED <<kv, root, seqn, memLog, segLog, pendTrunc, avail, marker,
                               disk, poisoned>>]_vars

\* C14 (abstract): once poisoned, no commit or rollback changes the durable image.
PoisonedIsFrozen == [][poisoned => disk' = disk]_vars

\* seqn is monotone and bumps exactly on state-changing syncs
SeqnMonotone == [][seqn' >= seqn \/ handle = "closed"]_vars

\* state constraint for exhaustive checking
Bounded == seqn <= MaxSeqn /\ disk.seqn <= MaxSeqn
=============================================================================
