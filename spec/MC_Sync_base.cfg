SPECIFICATION Spec
CONSTANTS
  CowFiles <- MC_CowFiles
  Pages <- MC_Pages
  LiveOld <- MC_LiveOld
  KeepOld <- MC_KeepOld
  Need <- MC_Need
  Beyond <- MC_Beyond
  HtPages <- MC_HtPages
  HtChanged <- MC_HtChanged
  WithRollback = TRUE
  SegRollsOver = TRUE
  PrunesOld = TRUE
  Drop = {}
  MaxCrashes = 2
INVARIANTS OldOrNew DurableOldOrNew NoTornLog NoOverwriteOfOld FailureIsReported
PROPERTIES ReturnedIsNew
CHECK_DEADLOCK FALSE
