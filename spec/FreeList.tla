------------------------------ MODULE FreeList ------------------------------
(***************************************************************************)
(* The paginated copy-on-write free list of the value files ln and bbn:    *)
(* a transcription of nomt/src/beatree/allocator/free_list.rs (pop,        *)
(* discard, commit = preallocate + push_and_encode) and of the part of     *)
(* allocator/mod.rs that drives it (SyncFinisher::finish).                 *)
(*                                                                         *)
(* The list is a stack of pages ("portions", the head is the last one);    *)
(* every portion is [pn: its page number, pns: the free page numbers it    *)
(* holds].  One sync = `n` allocations (taken from the head of the list,   *)
(* then from the bump pointer) and a list of freed pages.  The function    *)
(* returns the pages to write.  What the code promises (C17, C19):         *)
(*   - a page of the OLD list is never written with other content than it  *)
(*     holds (touched portions move to page numbers popped from the list), *)
(*   - no page freed in this sync is used for the new list (it is live in  *)
(*     the old image),                                                     *)
(*   - nothing is lost or duplicated: old entries + old list pages + freed *)
(*     + bumped = new entries + new list pages + allocated,                *)
(*   - the pages written, laid over the old pages, decode to the new list. *)
(* M is MAX_PNS_PER_PAGE (1022 in the code, 3-4 when model-checked).       *)
(***************************************************************************)
EXTENDS Naturals, Sequences, FiniteSets, TLC

CONSTANTS M,          \* items per free-list page
          MaxPage,    \* bound on page numbers (state constraint)
          MaxAlloc,   \* bound on allocations per sync
          MaxFreed,   \* bound on pages freed per sync
          MaxSyncs,
          Drop,       \* guards switched off (mutants): "new-full-portion", "renumber-head", "dirty-on-every-pop"
          AllSubsets  \* TRUE: every subset of the live pages may be freed; FALSE: the k smallest or the k largest ones

Last(s) == s[Len(s)]
Front(s) == SubSeq(s, 1, Len(s) - 1)
SetLast(s, x) == [s EXCEPT ![Len(s)] = x]
Range(s) == {s[i] : i \in 1..Len(s)}
Min2(a, b) == IF a < b THEN a ELSE b

NoFl == [portions |-> <<>>, released |-> <<>>]

\* FreeList::pop
Pop(fl) ==
    IF fl.portions = <<>> THEN [ok |-> FALSE, pn |-> 0, fl |-> fl]
    ELSE LET h == Last(fl.portions)
             pn == Last(h.pns)
             rest == Front(h.pns) IN
         IF rest = <<>>
         THEN [ok |-> TRUE, pn |-> pn, fl |-> [portions |-> Front(fl.portions), released |-> Append(fl.released, h.pn)]]
         ELSE [ok |-> TRUE, pn |-> pn, fl |-> [fl EXCEPT !.portions = SetLast(@, [pn |-> h.pn, pns |-> rest])]]

\* FreeList::discard(n): result [fl, discarded, taken] (taken: the page numbers handed out, newest first)
RECURSIVE Discard(_, _, _)
Discard(fl, n, taken) ==
    IF n = 0 \/ fl.portions = <<>> THEN [fl |-> fl, taken |-> taken]
    ELSE LET h == Last(fl.portions)
             k == Min2(Len(h.pns), n)
             keep == SubSeq(h.pns, 1, Len(h.pns) - k)
             gone == SubSeq(h.pns, Len(h.pns) - k + 1, Len(h.pns))
             fl2 == IF keep = <<>>
                    THEN [portions |-> Front(fl.portions), released |-> Append(fl.released, h.pn)]
                    ELSE [fl EXCEPT !.portions = SetLast(@, [pn |-> h.pn, pns |-> keep])]
         IN Discard(fl2, n - k, taken \o gone)

\* the loop of FreeList::preallocate.  st = [fl, toPush, bump, newPages, i, nfp]
RECURSIVE PreLoop(_)
PreLoop(st) ==
    IF st.i >= Len(st.toPush) THEN st
    ELSE IF st.fl.portions # <<>> /\ st.nfp
    THEN \* just popped into a new (full, untouched) portion: give it a page number of its own before editing it
         LET h == Last(st.fl.portions) IN
         PreLoop([st EXCEPT !.toPush = Append(@, h.pn),
                            !.fl.portions = SetLast(@, [pn |-> Last(h.pns), pns |-> Front(h.pns)]),
                            !.nfp = FALSE,
                            !.i = @ + 1])
    ELSE LET p == Pop(st.fl) IN
         IF p.ok
         THEN IF p.fl.released # <<>>
              THEN PreLoop([st EXCEPT !.fl = [p.fl EXCEPT !.released = Front(@)],
                                      !.newPages = @ \o <<p.pn, Last(p.fl.released)>>,
                                      !.nfp = ("new-full-portion" \notin Drop),
                                      !.i = @ + 1 + M])
              ELSE PreLoop([st EXCEPT !.fl = p.fl, !.newPages = Append(@, p.pn), !.i = @ + 1 + M])
         ELSE PreLoop([st EXCEPT !.newPages = Append(@, st.bump), !.bump = @ + 1, !.i = @ + M])

\* FreeList::preallocate
Preallocate(fl, toPush, bump) ==
    LET p == Pop(fl) IN
    IF ~p.ok THEN PreLoop([fl |-> fl, toPush |-> toPush, bump |-> bump, newPages |-> <<>>, i |-> 0, nfp |-> TRUE])
    ELSE IF p.fl.released # <<>>
    THEN LET x == Last(p.fl.released)
             fl2 == [p.fl EXCEPT !.released = Front(@)] IN
         IF fl2.portions # <<>> /\ Len(Last(fl2.portions).pns) = M - 1
         THEN \* fix up fragmentation: the second-to-last page is rewritten under the popped number
              LET h == Last(fl2.portions) IN
              PreLoop([fl |-> [fl2 EXCEPT !.portions = SetLast(@, [pn |-> p.pn, pns |-> h.pns])],
                       toPush |-> toPush \o <<h.pn, x>>, bump |-> bump, newPages |-> <<>>,
                       i |-> M - Len(h.pns), nfp |-> FALSE])
         ELSE PreLoop([fl |-> fl2, toPush |-> Append(toPush, x), bump |-> bump, newPages |-> <<p.pn>>, i |-> M, nfp |-> TRUE])
    ELSE \* the head is partially full: it moves to the popped page number
         LET h == Last(p.fl.portions) IN
         PreLoop([fl |-> [p.fl EXCEPT !.portions = SetLast(@, [pn |-> IF "renumber-head" \in Drop THEN h.pn ELSE p.pn, pns |-> h.pns])],
                  toPush |-> IF "renumber-head" \in Drop THEN Append(toPush, p.pn) ELSE Append(toPush, h.pn),
                  bump |-> bump, newPages |-> <<>>,
                  i |-> M - Len(h.pns), nfp |-> FALSE])

\* encode_head: the page written for the current head (prev pointer = page number of the portion below, 0 = none)
Encoded(portions) ==
    LET h == Last(portions) IN
    [pn |-> h.pn, prev |-> IF Len(portions) >= 2 THEN portions[Len(portions) - 1].pn ELSE 0, pns |-> h.pns]

\* FreeList::push_and_encode.  st = [portions, newPages, writes, k]  (k: index of the next item to push)
RECURSIVE PushLoop(_, _)
PushLoop(st, toPush) ==
    IF st.k > Len(toPush)
    THEN [st EXCEPT !.writes = IF st.portions = <<>> THEN @ ELSE Append(@, Encoded(st.portions))]
    ELSE LET headFull == st.portions = <<>> \/ Len(Last(st.portions).pns) = M
             frag == /\ st.portions # <<>> /\ Len(Last(st.portions).pns) = M - 1
                     /\ st.newPages # <<>> /\ st.k = Len(toPush)
             st2 == IF headFull \/ frag
                    THEN [st EXCEPT !.writes = IF st.portions = <<>> THEN @ ELSE Append(@, Encoded(st.portions)),
                                    !.portions = Append(@, [pn |-> Head(st.newPages), pns |-> <<>>]),
                                    !.newPages = Tail(@)]
                    ELSE st
             h == Last(st2.portions)
         IN PushLoop([st2 EXCEPT !.portions = SetLast(@, [pn |-> h.pn, pns |-> Append(h.pns, toPush[st.k])]), !.k = @ + 1], toPush)

\* FreeList::commit + SyncFinisher::finish: n allocations, `freed` pages to add.
\* Result: [fl, bump, writes, taken (allocated page numbers), toPush, newPages, leftover]
Finish(fl, bump, n, freed) ==
    LET d == Discard(fl, n, <<>>)
        bumps == n - Len(d.taken)
        bump1 == bump + bumps
        taken == d.taken \o [j \in 1..bumps |-> bump + j - 1]
       \* "No changes were made": `pop` is set by every pop / discard that takes an item (guard dirty-on-every-pop;
       \* without it only when a whole head page is used up - then a sync that takes a few items and frees nothing
       \* leaves the old list on disk, DiskMatchesMemory fails, and SyncTrace's list-rewritten rule is its trace form)
    IN IF d.fl.released = <<>> /\ ("dirty-on-every-pop" \in Drop \/ Len(d.taken) = 0) /\ freed = <<>>
       THEN [fl |-> d.fl, bump |-> bump1, writes |-> <<>>, taken |-> taken, toPush |-> <<>>, newPages |-> <<>>, leftover |-> <<>>]
       ELSE LET toPush0 == freed \o d.fl.released      \* "append the released free list pages" (drained)
                pre == Preallocate([d.fl EXCEPT !.released = <<>>], toPush0, bump1)
                pu == PushLoop([portions |-> pre.fl.portions, newPages |-> pre.newPages, writes |-> <<>>, k |-> 1], pre.toPush)
            IN [fl |-> [portions |-> pu.portions, released |-> pre.fl.released], bump |-> pre.bump, writes |-> pu.writes,
                taken |-> taken, toPush |-> pre.toPush, newPages |-> pre.newPages, leftover |-> pu.newPages]

-----------------------------------------------------------------------------
(* The state machine explored by TLC: a file with a free list, live pages   *)
VARIABLES fl, bump, live, disk, syncs, last
vars == <<fl, bump, live, disk, syncs, last>>

\* disk: the free-list pages as written so far, [pn -> [prev, pns]] for page numbers that hold a list page
Init == fl = NoFl /\ bump = 1 /\ live = {} /\ disk = <<>> /\ syncs = 0 /\ last = [none |-> TRUE]

Chain(f) == {f.portions[i].pn : i \in 1..Len(f.portions)}
Entries(f) == UNION {Range(f.portions[i].pns) : i \in 1..Len(f.portions)}

SetToSeq(S) ==
    LET RECURSIVE go(_, _)
        go(T, acc) == IF T = {} THEN acc ELSE LET m == CHOOSE x \in T : \A y \in T : x <= y IN go(T \ {m}, Append(acc, m))
    IN go(S, <<>>)

\* lay the written pages over the old ones
Overlay(old, writes) ==
    LET wpns == {writes[i].pn : i \in 1..Len(writes)}
        lastw(pn) == writes[CHOOSE i \in 1..Len(writes) : writes[i].pn = pn /\ \A j \in (i + 1)..Len(writes) : writes[j].pn # pn]
    IN [pn \in (DOMAIN old) \cup wpns |-> IF pn \in wpns THEN [prev |-> lastw(pn).prev, pns |-> lastw(pn).pns] ELSE old[pn]]

Sync(n, F) ==
    /\ syncs < MaxSyncs
    /\ F \subseteq live
    /\ LET r == Finish(fl, bump, n, SetToSeq(F)) IN
       /\ r.bump <= MaxPage + 1
       /\ fl' = r.fl /\ bump' = r.bump
       /\ live' = (live \ F) \cup Range(r.taken)
       /\ disk' = Overlay(disk, r.writes)
       /\ last' = [none |-> FALSE, old |-> fl, oldBump |-> bump, oldDisk |-> disk, n |-> n, freed |-> F, r |-> r]
    /\ syncs' = syncs + 1

Smallest(S, k) == {x \in S : Cardinality({y \in S : y < x}) < k}
Largest(S, k) == {x \in S : Cardinality({y \in S : y > x}) < k}
Next ==
    IF AllSubsets
    THEN \E n \in 0..MaxAlloc, F \in SUBSET live : Cardinality(F) <= MaxFreed /\ Sync(n, F)
    ELSE \E n \in 0..MaxAlloc, k \in 0..MaxFreed : Sync(n, Smallest(live, k)) \/ Sync(n, Largest(live, k))
Spec == Init /\ [][Next]_vars

-----------------------------------------------------------------------------
(* Properties of every sync                                                 *)

WellFormed(f) ==
    /\ \A i \in 1..Len(f.portions) : f.portions[i].pns # <<>> /\ Len(f.portions[i].pns) <= M
    /\ \A i, j \in 1..Len(f.portions) : i # j => f.portions[i].pn # f.portions[j].pn
    /\ \A i \in 1..Len(f.portions) : \A a, b \in 1..Len(f.portions[i].pns) : a # b => f.portions[i].pns[a] # f.portions[i].pns[b]
    /\ \A i, j \in 1..Len(f.portions) : i # j => Range(f.portions[i].pns) \cap Range(f.portions[j].pns) = {}
    /\ Chain(f) \cap Entries(f) = {}
    \* all portions but the head are full - or the fragmented shape: second-to-last holds M - 1, the head exactly one
    /\ \A i \in 1..(Len(f.portions) - 1) :
          \/ Len(f.portions[i].pns) = M
          \/ i = Len(f.portions) - 1 /\ Len(f.portions[i].pns) = M - 1 /\ Len(Last(f.portions).pns) = 1
    /\ f.released = <<>>

ListWellFormed == WellFormed(fl)

\* C17: a page of the old list is only ever written with the content it already holds
CopyOnWrite ==
    last.none \/
    \A i \in 1..Len(last.r.writes) :
        LET w == last.r.writes[i] IN
        w.pn \in DOMAIN last.oldDisk /\ w.pn \in Chain(last.old) =>
            last.oldDisk[w.pn] = [prev |-> w.prev, pns |-> w.pns]

\* C17: pages freed in this sync (live in the old image) and live pages are never written
NoWriteToLiveOrFreed ==
    last.none \/
    \A i \in 1..Len(last.r.writes) :
        LET w == last.r.writes[i] IN
        \/ w.pn \in Chain(last.old)                       \* (an identical re-emit, see CopyOnWrite)
        \/ w.pn \in Entries(last.old)                     \* free in the old image
        \/ w.pn >= last.oldBump                            \* beyond the old bump pointer

\* C19: nothing is lost, nothing is handed out or listed twice
Conservation ==
    LET used == live \cup Entries(fl) \cup Chain(fl) IN
    /\ used = 1..(bump - 1)
    /\ live \cap Entries(fl) = {} /\ live \cap Chain(fl) = {}

\* the written pages, laid over the old ones, decode to the in-memory list
RECURSIVE Decode(_, _, _)
Decode(d, pn, fuel) ==
    IF pn = 0 \/ fuel = 0 \/ pn \notin DOMAIN d THEN <<>>
    ELSE Append(Decode(d, d[pn].prev, fuel - 1), [pn |-> pn, pns |-> d[pn].pns])
DiskMatchesMemory ==
    LET head == IF fl.portions = <<>> THEN 0 ELSE Last(fl.portions).pn IN
    Decode(disk, head, MaxPage + 1) = fl.portions

\* the design-level form of SyncTrace's list-rewritten rule: a sync that took an item from the old list leaves a
\* list with another head page (the touched head is rewritten elsewhere or released)
HeadMovesWhenTaken ==
    last.none \/
    LET oldHead == IF last.old.portions = <<>> THEN 0 ELSE Last(last.old.portions).pn
        newHead == IF fl.portions = <<>> THEN 0 ELSE Last(fl.portions).pn
    IN (Range(last.r.taken) \cap Entries(last.old) # {}) => newHead # oldHead

\* every page number preallocate reserved was used by push_and_encode
NoLeftoverPages == last.none \/ last.r.leftover = <<>>

Bound == bump <= MaxPage + 1
=============================================================================
