------------------------------ MODULE MC_Trie ------------------------------
(***************************************************************************)
(* Exhaustive check of the proof theorems over ALL maps on N-bit keys:     *)
(* the map is built key by key through Next (so TLC's workers share the    *)
(* enumeration); the theorems are invariants of the completed maps.        *)
(*   Completeness (C05), RootCanonical (C02), Soundness under the          *)
(*   single-mutation grammar (C08), UpdateCorrect (C06/C07 per-path).      *)
(***************************************************************************)
EXTENDS Trie, Json

CONSTANTS N,        \* key length in bits
          Vals,     \* values
          MaxKeys   \* bound on the number of present keys

RECURSIVE BitStrings(_)
BitStrings(n) == IF n = 0 THEN {<<>>} ELSE {Append(s, b) : s \in BitStrings(n - 1), b \in {0, 1}}
AllKeys == BitStrings(N)
RECURSIVE NatToBits(_, _)
NatToBits(n, len) == IF len = 0 THEN <<>> ELSE Append(NatToBits(n \div 2, len - 1), n % 2)
KeySeq == [i \in 1..Cardinality(AllKeys) |-> NatToBits(i - 1, N)]

VARIABLES kv, idx
vars == <<kv, idx>>

Init == kv = [k \in {} |-> "x"] /\ idx = 1
Done == idx > Cardinality(AllKeys)

Next ==
    /\ ~Done
    /\ idx' = idx + 1
    /\ \/ kv' = kv
       \/ /\ Cardinality(DOMAIN kv) < MaxKeys
          /\ \E v \in Vals : kv' = [k \in DOMAIN kv \cup {KeySeq[idx]} |-> IF k = KeySeq[idx] THEN v ELSE kv[k]]

Spec == Init /\ [][Next]_vars

AllPrefixes == UNION {BitStrings(n) : n \in 0..N}

\* C05: the honest proof verifies and confirms exactly the map's view
Completeness ==
    Done => \A k \in AllKeys :
        LET r == VerifyPath(PathProofOf(kv, k), k, Root(kv)) IN
        /\ r.t = "Ok"
        /\ IF k \in DOMAIN kv
           THEN ConfirmValue(r, k, kv[k]) = "true" /\ ConfirmNonexistence(r, k) = "false"
           ELSE ConfirmNonexistence(r, k) = "true" /\ \A v \in Vals : ConfirmValue(r, k, v) = "false"

\* C02: the root determines the map (injective on maps): checked pairwise against the
\* single-key modifications of the map, the only maps TLC holds at the same time
RootInjectiveLocally ==
    Done => \A k \in AllKeys :
        /\ (k \in DOMAIN kv => Root([x \in DOMAIN kv \ {k} |-> kv[x]]) # Root(kv))
        /\ \A v \in Vals : (k \notin DOMAIN kv \/ kv[k] # v) =>
               Root([x \in DOMAIN kv \cup {k} |-> IF x = k THEN v ELSE kv[x]]) # Root(kv)

\* the node universe a prover can draw siblings from
Universe == {NodeAt(kv, p) : p \in AllPrefixes} \cup {TNode, <<"X", 1>>}
            \cup {Leaf(k, v) : k \in AllKeys, v \in Vals}

Replace(s, i, x) == [j \in 1..Len(s) |-> IF j = i THEN x ELSE s[j]]
Swap(s, i, j) == [m \in 1..Len(s) |-> IF m = i THEN s[j] ELSE IF m = j THEN s[i] ELSE s[m]]

Terminals == {[kind |-> "L", key |-> k, val |-> v] : k \in AllKeys, v \in Vals}
             \cup {[kind |-> "T", pos |-> p] : p \in AllPrefixes}

Mutants(pf) ==
    {[pf EXCEPT !.sibs = Replace(pf.sibs, i, x)] : i \in 1..Len(pf.sibs), x \in Universe}
    \cup {[pf EXCEPT !.sibs = SubSeq(pf.sibs, 1, j)] : j \in 0..Len(pf.sibs)}
    \cup {[pf EXCEPT !.sibs = Append(pf.sibs, x)] : x \in Universe}
    \cup {[pf EXCEPT !.sibs = Swap(pf.sibs, i, j)] : i, j \in 1..Len(pf.sibs)}
    \cup {[pf EXCEPT !.terminal = t] : t \in Terminals}

\* C08: whatever is accepted only confirms true statements
SoundFor(pf, q) ==
    LET r == VerifyPath(pf, q, Root(kv)) IN
    r.t = "Ok" =>
        \A k \in AllKeys :
            /\ NonexistenceStatementTrue(kv, k, ConfirmNonexistence(r, k))
            /\ \A v \in Vals : ValueStatementTrue(kv, k, v, ConfirmValue(r, k, v))

Soundness ==
    Done => \A k \in AllKeys : \A m \in Mutants(PathProofOf(kv, k)) : \A q \in AllKeys : SoundFor(m, q)


\* C07: the aggregate of the honest proofs of ANY non-empty set of terminals verifies
TermPaths == {Prefix(k, TermDepth(kv, k)) : k \in AllKeys}
ProofFor(tp) == LET k == CHOOSE x \in AllKeys : HasPrefix(x, tp) /\ TermDepth(kv, x) = Len(tp) IN PathProofOf(kv, k)
RECURSIVE SortPaths(_)
SortPaths(S) == IF S = {} THEN <<>>
                ELSE LET m == CHOOSE x \in S : \A y \in S \ {x} : BitLess(x, y) IN <<m>> \o SortPaths(S \ {m})
\* terminator terminals carry their position as path; order the proofs by terminal path
MultiEquivalence ==
    Done => \A S \in (SUBSET TermPaths) \ {{}} :
        LET order == SortPaths(S)
            pfs == [i \in 1..Len(order) |-> ProofFor(order[i])]
        IN VerifyMulti(MultiFrom(pfs), Root(kv)) = "Ok"

\* export of every completed map (spec -> code direction): one line per map
Export == Done => PrintT(<<"KV", ToJson({<<k, kv[k]>> : k \in DOMAIN kv})>>)
=============================================================================
