SPECIFICATION Spec
CONSTANTS
  Keys = {"k1", "k2"}
  Vals = {"v1"}
  MaxLog = 1
  RollbackOn = TRUE
  MaxOvl = 0
  MaxFin = 2
  MaxSess = 1
  MaxSeqn = 3
  Faults = TRUE
  AllowUngrounded = FALSE
CONSTRAINT Bounded
INVARIANTS TypeOK RootCanonical DurableIsVisible LogMatchesHist AvailRetained LogBounded
  ReopenTransparent OverlayEquivalence MarkerCommitted SegEqMem
PROPERTIES RejectedIsNoOp PoisonedIsFrozen SeqnMonotone
CHECK_DEADLOCK FALSE
