------------------------------ MODULE AbaProof ------------------------------
(* TLAPS proof: with the "epoch" guard LayoutKnowledgeCurrent is inductive   *)
(* for every Values and MaxSyncs (the unbounded counterpart of the TLC run). *)
EXTENDS Aba, TLAPS

ASSUME GuardIsEpoch == Guard = "epoch"

THEOREM EpochSafe == Spec => []LayoutKnowledgeCurrent
<1>1. Init => LayoutKnowledgeCurrent
  BY DEF Init, LayoutKnowledgeCurrent
<1>2. LayoutKnowledgeCurrent /\ [Next]_vars => LayoutKnowledgeCurrent'
  <2> SUFFICES ASSUME LayoutKnowledgeCurrent, [Next]_vars PROVE LayoutKnowledgeCurrent'
    OBVIOUS
  <2>1. ASSUME NEW v \in Values, Prepare(v) PROVE LayoutKnowledgeCurrent'
    BY <2>1 DEF Prepare, LayoutKnowledgeCurrent
  <2>2. ASSUME NEW v \in Values, OtherCommit(v) PROVE LayoutKnowledgeCurrent'
    BY <2>2 DEF OtherCommit, LayoutKnowledgeCurrent
  <2>3. ASSUME Rollback PROVE LayoutKnowledgeCurrent'
    BY <2>3 DEF Rollback, LayoutKnowledgeCurrent
  <2>4. ASSUME CommitChangeset PROVE LayoutKnowledgeCurrent'
    BY <2>4, GuardIsEpoch DEF CommitChangeset, Valid, LayoutKnowledgeCurrent
  <2>5. ASSUME UNCHANGED vars PROVE LayoutKnowledgeCurrent'
    BY <2>5 DEF vars, LayoutKnowledgeCurrent
  <2> QED BY <2>1, <2>2, <2>3, <2>4, <2>5 DEF Next
<1> QED BY <1>1, <1>2, PTL DEF Spec
=============================================================================
