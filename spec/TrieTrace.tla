------------------------------ MODULE TrieTrace ------------------------------
(***************************************************************************)
(* Evaluation-trace validation for the proof system.  Each record of the   *)
(* trace (written by `nvh proofs`) is one call of a REAL prover/verifier   *)
(* function of nomt / nomt_core with its arguments in symbolic term form   *)
(* and the verdict the real function gave.  TLC evaluates the              *)
(* specification (Trie.tla) on the same arguments:                         *)
(*   path    PathProof::verify + confirm_* must return exactly what the    *)
(*           transcription returns (C05 for src = "store", C08 and C18 for *)
(*           mutants), and every confirmed statement must be true of kv;   *)
(*   update  verify_update's verdict must equal UpdatePre, and an accepted *)
(*           update must yield the root of ApplyOps(kv, ops) (C06/C07);    *)
(*   multi   an honest aggregate must verify and answer like the map; a    *)
(*           mutated one must get a verdict (never a panic) and, if        *)
(*           accepted, confirm only true statements (C07, C08, C18);       *)
(*   root    the store's root is the evaluated Root(kv) term (C02).        *)
(* A failing record is reported and validation continues with the next.    *)
(***************************************************************************)
EXTENDS Trie, Json, IOUtils

Rec == ndJsonDeserialize(IOEnv.TRACE)

VARIABLE l

KvOf(pairs) ==
    [k \in {pairs[i][1] : i \in 1..Len(pairs)} |->
        pairs[CHOOSE i \in 1..Len(pairs) : pairs[i][1] = k][2]]

ProofOf(p) == [terminal |-> p.terminal, sibs |-> p.sibs]

ExpectValue(kv, k, v) == IF k \in DOMAIN kv /\ kv[k] = v THEN "true" ELSE "false"
ExpectNonexist(kv, k) == IF k \notin DOMAIN kv THEN "true" ELSE "false"

PathOk(r) ==
    LET kv  == KvOf(r.kv)
        res == VerifyPath(ProofOf(r.proof), r.key, Root(kv))
    IN /\ r.verify = res.t
       /\ res.t = "Ok" =>
            /\ \A i \in 1..Len(r.cv) :
                 LET c == r.cv[i] IN
                 /\ c.ans = ConfirmValue(res, c.k, c.v)
                 /\ ValueStatementTrue(kv, c.k, c.v, c.ans)
            /\ \A i \in 1..Len(r.cn) :
                 LET c == r.cn[i] IN
                 /\ c.ans = ConfirmNonexistence(res, c.k)
                 /\ NonexistenceStatementTrue(kv, c.k, c.ans)
       /\ (res.t = "Ok" /\ "cvx" \in DOMAIN r) =>
            \A i \in 1..Len(r.cvx) :
                 r.cvx[i].ans = (IF InScope(res, r.cvx[i].k) THEN "false" ELSE "OutOfScope")
       /\ r.src = "store" =>
            /\ res.t = "Ok"
            /\ ConfirmNonexistence(res, r.key) = ExpectNonexist(kv, r.key)
            /\ r.key \in DOMAIN kv => ConfirmValue(res, r.key, kv[r.key]) = "true"

RECURSIVE Concat(_)
Concat(ss) == IF Len(ss) = 0 THEN <<>> ELSE Head(ss) \o Concat(Tail(ss))

UpdateOk(r) ==
    LET kv   == KvOf(r.kv)
        root == Root(kv)
        \* a path marked "foreign" was verified against the root it hashes up to itself, not against Root(kv)
        ups  == [i \in 1..Len(r.ups) |->
                    LET pf == ProofOf(r.ups[i].proof)
                        rt == IF "foreign" \in DOMAIN r.ups[i]
                              THEN HashUp(TermNode(pf.terminal), Prefix(r.ups[i].key, Len(pf.sibs)), pf.sibs)
                              ELSE root
                    IN [vp |-> VerifyPath(pf, r.ups[i].key, rt), ops |-> r.ups[i].ops]]
        pre  == UpdatePre(ups, root, 1)
    IN /\ \A i \in 1..Len(ups) : ups[i].vp.t = "Ok"
       /\ r.res = pre
       /\ pre = "Ok" =>
            /\ KvOf(r.newKv) = ApplyOps(kv, Concat([i \in 1..Len(ups) |-> ups[i].ops]))
            /\ r.rootMatches

QueryTruth(kv, q, a) ==
    IF q.q = "value" THEN ValueStatementTrue(kv, q.k, q.v, a)
    ELSE IF q.q = "valuex" THEN a # "true"
    ELSE NonexistenceStatementTrue(kv, q.k, a)

\* an in-scope sorted write set verified through the multi-proof and through the per-path verifier: both accept and
\* both give the root of ApplyOps(kv, ops)
UpdViaMultiOk(kv, u) ==
    /\ u.multiRes = "Ok" /\ u.pathRes = "Ok"
    /\ KvOf(u.newKv) = ApplyOps(kv, u.ops)
    /\ u.multiRootMatches /\ u.pathRootMatches

MultiHonestOk(r) ==
    LET kv == KvOf(r.kv)
        covered(k) == \E i \in 1..Len(r.paths) : HasPrefix(k, r.paths[i])
    IN /\ r.verify = "Ok"
       /\ r.storeRootOk
       /\ \A i \in 1..Len(r.queries) :
            LET q == r.queries[i]
                e == IF ~covered(q.k) THEN "OutOfScope"
                     ELSE IF q.q = "value" THEN ExpectValue(kv, q.k, q.v)
                     ELSE IF q.q = "valuex" THEN "false"          \* another key's value hash is never this key's value
                     ELSE ExpectNonexist(kv, q.k)
            IN q.ans = e /\ q.ansIdx = e
       \* a malformed operation list (unsorted, duplicated or out-of-scope key) gets an error, never a root or a panic (C18)
       /\ "updBad" \in DOMAIN r => r.updBad.res \notin {"Ok", "PANIC"}
       /\ "upd" \in DOMAIN r => UpdViaMultiOk(kv, r.upd)
       /\ "upds" \in DOMAIN r => \A i \in 1..Len(r.upds) : UpdViaMultiOk(kv, r.upds[i])

MultiMutOk(r) ==
    LET kv == KvOf(r.kv) IN
    /\ r.verify # "PANIC" /\ r.verify # "PANIC-from_path_proofs"
    /\ r.verify = "Ok" =>
         \A i \in 1..Len(r.queries) :
            LET q == r.queries[i] IN
            /\ q.ans # "PANIC" /\ q.ansIdx # "PANIC"
            /\ QueryTruth(kv, q, q.ans) /\ QueryTruth(kv, q, q.ansIdx)

\* conformance of multi_proof::verify with the transcription (Trie!VerifyMulti) on the recorded object itself.
\* Where the transcription says "Malformed" (the Rust code indexes / subtracts without a guard) the real
\* function must still return an error: a panic there is finding F6 (C18).
MultiVerdictOk(r) ==
    IF "mp" \notin DOMAIN r THEN TRUE
    ELSE LET v == VerifyMulti([paths |-> r.mp.paths, sibs |-> r.mp.sibs], Root(KvOf(r.kv))) IN
         IF v = "Malformed" THEN r.verify \notin {"Ok", "PANIC", "PANIC-from_path_proofs"}
         ELSE r.verify = v

RootOk(r) == r.rootTerm = Root(KvOf(r.kv)) /\ r.storeRootEqualsTermRoot

RecOk(r) ==
    CASE r.k = "path"   -> PathOk(r)
      [] r.k = "update" -> UpdateOk(r)
      [] r.k = "multi"  -> MultiVerdictOk(r) /\ (IF r.src = "honest" THEN MultiHonestOk(r) ELSE MultiMutOk(r))
      [] r.k = "root"   -> RootOk(r)
      [] OTHER -> FALSE

Init == l = 1
Next == /\ l <= Len(Rec)
        /\ IF RecOk(Rec[l]) THEN TRUE ELSE PrintT(<<"BAD-RECORD", l>>)
        /\ l' = l + 1
Spec == Init /\ [][Next]_l

Finished ==
    LET d == TLCGet("stats").diameter IN
    IF d - 1 = Len(Rec) THEN PrintT(<<"TRACE-COMPLETE", Len(Rec)>>)
    ELSE Print(<<"TRACE-INCOMPLETE", d>>, FALSE)
=============================================================================
