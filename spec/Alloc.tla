------------------------------- MODULE Alloc -------------------------------
(***************************************************************************)
(* Copy-on-write page accounting of the value files ln and bbn             *)
(* (beatree/allocator/mod.rs, beatree/allocator/free_list.rs).             *)
(*                                                                         *)
(* Pages 1..bump-1 have been handed out at some time.  At every quiescent  *)
(* point each of them is exactly one of                                    *)
(*     live     referenced by the current state (leaf, overflow, branch)   *)
(*     free     an item of the free list                                   *)
(*     fl       a page that stores the free list itself                    *)
(* One sync releases some live pages, allocates pages for the new state    *)
(* from the OLD free list (pops) or from the bump pointer, and rewrites    *)
(* the free list into fresh pages (taken from the popped ones or the       *)
(* bump).  Pages released in a sync are never handed out in the same sync  *)
(* (the old image must stay intact until the switch-over: C17).            *)
(***************************************************************************)
EXTENDS Naturals, FiniteSets, TLC

CONSTANTS MaxPage,      \* pages are 1..MaxPage
          PerFlPage     \* free-list items per free-list page (1022 in the code)

VARIABLES live, free, fl, bump

vars == <<live, free, fl, bump>>

Pages == 1..MaxPage
Used == 1..(bump - 1)

Init == live = {} /\ free = {} /\ fl = {} /\ bump = 1

\* how many pages a free list of n items occupies
FlPagesFor(n) == IF n = 0 THEN 0 ELSE (n + PerFlPage - 1) \div PerFlPage

\* One sync.  rel: released live pages; fresh: pages handed out for new live content and for the
\* rewritten free-list pages; newbump: the bump pointer afterwards.
Sync(rel, allocLive, allocFl, newbump) ==
    /\ rel \subseteq live
    /\ newbump >= bump /\ newbump <= MaxPage + 1
    /\ allocLive \cap allocFl = {}
    \* fresh pages come from the old free list or from beyond the old bump - never from pages released now
    /\ (allocLive \cup allocFl) \subseteq (free \cup (bump..(newbump - 1)))
    /\ (bump..(newbump - 1)) \subseteq (allocLive \cup allocFl)        \* bumped pages are used at once
    /\ live' = (live \ rel) \cup allocLive
    /\ free' = ((free \ (allocLive \cup allocFl)) \cup rel \cup (fl \ allocFl))   \* old free-list pages are recycled
    /\ fl' = allocFl
    /\ bump' = newbump
    /\ Cardinality(allocFl) = FlPagesFor(Cardinality(free'))

Next == \E rel \in SUBSET live, al \in SUBSET Pages, af \in SUBSET Pages, nb \in bump..(MaxPage + 1) :
            Sync(rel, al, af, nb)

Spec == Init /\ [][Next]_vars

\* C16 / C19: no page is leaked, none is used twice
Partition ==
    /\ live \cap free = {} /\ live \cap fl = {} /\ free \cap fl = {}
    /\ live \cup free \cup fl = Used

\* the transition relation between two consecutive quiescent snapshots, as checked on decoder output:
\* a page that is live in both is untouched; a page that becomes live was free, a free-list page or fresh;
\* nothing below the old bump vanishes
Step(l0, f0, q0, b0, l1, f1, q1, b1) ==
    /\ b1 >= b0
    /\ (l1 \ l0) \subseteq (f0 \cup q0 \cup (b0..(b1 - 1)))
    /\ (q1 \ q0) \subseteq (f0 \cup q0 \cup (b0..(b1 - 1)))
    /\ (l0 \ l1) \subseteq (f1 \cup q1)                 \* released pages are reclaimed (C19)
    /\ l1 \cup f1 \cup q1 = 1..(b1 - 1)

StepHolds == [][Step(live, free, fl, bump, live', free', fl', bump')]_vars
=============================================================================
