------------------------------ MODULE ApiTrace ------------------------------
(***************************************************************************)
(* Trace validation of the real store against NomtApi.                     *)
(*                                                                         *)
(* The trace is the ndjson file written by `nvh replay` (one record per    *)
(* public call with the call's arguments, its classified outcome and the   *)
(* state observed through the public API afterwards).  Every record must   *)
(* be an instance of the specification action that has this outcome, from  *)
(* the current specification state, and the observed state must equal the  *)
(* specification's next state.  Several runs are concatenated; a `reset`   *)
(* record re-initialises the specification state.                          *)
(***************************************************************************)
EXTENDS NomtApi, Json, IOUtils

CONSTANT Relax    \* set of check classes to skip ({} = strict); used only to attribute a rejection

Rec == ndJsonDeserialize(IOEnv.TRACE)
R(c) == c \in Relax

VARIABLES l,       \* index of the next record to consume
          roots    \* ghost: root id observed for each map in this run (0 = not seen yet)

tvars == <<vars, l, roots>>

Cur == Rec[l]
Has(f) == f \in DOMAIN Cur
Adv == l' = l + 1

AsBatch(w) == [k \in Keys |-> w[k]]

(***************************************************************************)
(* The observation after a step must be the specification's next state.    *)
(***************************************************************************)
RootIdOk(st) ==
    IF poisoned' \/ R("root") THEN roots' = roots
    ELSE /\ roots[root'] \in {0, st.rootId}
         /\ \A m \in Maps : m # root' => roots[m] # st.rootId     \* C02: distinct maps, distinct roots
         /\ roots' = [roots EXCEPT ![root'] = st.rootId]

StOk ==
    LET st == Cur.st IN
    IF R("st") THEN roots' = roots
    ELSE IF handle' = "closed" THEN st.open = FALSE /\ roots' = roots
    ELSE /\ st.open
         /\ R("kv") \/ \A k \in Keys : st.kv[k] = kv'[k]            \* C01
         /\ R("kv") \/ st.probesOk                                 \* never-written keys read None
         /\ R("seqn") \/ st.seqn = seqn'
         /\ R("poison") \/ st.poisoned = poisoned'
         /\ R("root") \/ ((~poisoned') => st.rootOk)               \* C02: root = reference trie root
         \* C16: the files decode, by the documented formats alone, to a well-formed image of exactly this state
         /\ IF R("dec") \/ "dec" \notin DOMAIN st THEN TRUE ELSE st.dec.ok /\ st.dec.kvOk
         \* C19: no page below the frontier is leaked; the reported occupancy is the number of full buckets
         /\ IF R("alloc") \/ "dec" \notin DOMAIN st THEN TRUE ELSE st.dec.noLeak /\ st.dec.occupiedOk
         /\ RootIdOk(st)

IsEv(e) == l <= Len(Rec) /\ Cur.ev = e

TrReset ==
    /\ IsEv("reset")
    /\ handle' = "open"
    /\ kv' = EmptyMap /\ root' = EmptyMap /\ seqn' = 0
    /\ memLog' = <<>> /\ segLog' = <<>> /\ pendTrunc' = 0
    /\ avail' = 0
    /\ ovl' = [o \in OvlIds |-> NoOvl] /\ marker' = 0
    /\ sess' = [s \in SessIds |-> NoSess]
    /\ fin' = [f \in FinIds |-> NoFin]
    /\ poisoned' = FALSE
    /\ disk' = [kv |-> EmptyMap, seqn |-> 0, log |-> <<>>]
    /\ roots' = [m \in Maps |-> 0]
    /\ Cur.st.open /\ \A k \in Keys : Cur.st.kv[k] = Nil
    /\ Cur.st.rootOk /\ Cur.st.seqn = 0 /\ ~Cur.st.poisoned
    /\ Adv

TrBegin ==
    /\ IsEv("Begin") /\ Cur.res = "Ok"
    /\ BeginSession(Cur.s, Cur.chain)
    /\ R("kv") \/ \A k \in Keys : Cur.view[k] = sess'[Cur.s].view[k]   \* C01/C11/C15: the session's view
    /\ R("kv") \/ Cur.viewProbesOk
    /\ R("root") \/ (sess'[Cur.s].valid => Cur.prevRootOk)           \* C02
    /\ R("proof") \/ (sess'[Cur.s].valid => Cur.proofsOk)            \* C05
    /\ StOk /\ Adv

TrBeginRefused ==
    /\ IsEv("Begin") /\ Cur.res \in {"Incomplete", "NotAncestor"}
    /\ BuildOnChainRefused(Cur.chain, Cur.res)
    /\ StOk /\ Adv

TrDropSession == IsEv("DropSession") /\ DropSession(Cur.s) /\ StOk /\ Adv

TrFinish ==
    /\ IsEv("Finish") /\ Cur.res = "Ok"
    /\ R("kv") \/ \A k \in Keys : Cur.view[k] = sess[Cur.s].view[k]   \* snapshot still the same
    /\ R("root") \/ (sess[Cur.s].valid => Cur.newRootOk)             \* C02 for finished sessions
    /\ R("root") \/ Cur.prevRootSame
    /\ R("wit") \/ ((Has("witnessOk") /\ sess[Cur.s].valid) => Cur.witnessOk)    \* C06
    /\ Finish(Cur.s, Cur.f, AsBatch(Cur.w))
    /\ StOk /\ Adv

TrDropFinished == IsEv("DropFinished") /\ DropFinished(Cur.f) /\ StOk /\ Adv

TrCommit ==
    /\ IsEv("Commit")
    /\ \/ Cur.res = "Ok" /\ Commit(Cur.f)
       \/ Cur.res = "Stale" /\ CommitStale(Cur.f)
       \/ Cur.res = "Poisoned" /\ CommitPoisoned(Cur.f)
    /\ StOk /\ Adv

TrTryCommit ==
    /\ IsEv("TryCommit")
    /\ \/ Cur.res = "Ok" /\ TryCommitDone(Cur.f)
       \/ Cur.res = "HandedBack" /\ TryCommitHandedBack(Cur.f)
       \* concurrent runs: another writer may hold the lock at that moment; handing back is a no-op anyway
       \/ Cur.res = "HandedBack" /\ R("conc") /\ fin[Cur.f].st = "ready" /\ UNCHANGED vars
       \/ Cur.res = "Stale" /\ TryCommitStale(Cur.f)
       \/ Cur.res = "Poisoned" /\ CommitPoisoned(Cur.f)
    /\ StOk /\ Adv

TrIntoOverlay == IsEv("IntoOverlay") /\ IntoOverlay(Cur.f, Cur.o) /\ StOk /\ Adv
TrDropOverlay == IsEv("DropOverlay") /\ DropOverlay(Cur.o) /\ StOk /\ Adv

TrOverlayCommit ==
    /\ IsEv("OverlayCommit")
    /\ \/ Cur.res = "Ok" /\ OverlayCommit(Cur.o)
       \/ Cur.res = "ParentNotCommitted" /\ OverlayCommitParentNotCommitted(Cur.o)
       \/ Cur.res = "Stale" /\ OverlayCommitStale(Cur.o)
       \/ Cur.res = "Poisoned" /\ OverlayCommitPoisoned(Cur.o)
    /\ StOk /\ Adv

TrOverlayTryCommit ==
    /\ IsEv("OverlayTryCommit")
    /\ \/ Cur.res = "Ok" /\ OverlayTryCommitDone(Cur.o)
       \/ Cur.res = "HandedBack" /\ OverlayTryCommitHandedBack(Cur.o)
       \/ Cur.res = "HandedBack" /\ R("conc") /\ ovl[Cur.o].st = "live" /\ UNCHANGED vars
       \/ Cur.res = "ParentNotCommitted" /\ OverlayCommitParentNotCommitted(Cur.o)
       \/ Cur.res = "Stale" /\ OverlayCommitStale(Cur.o)
       \/ Cur.res = "Poisoned" /\ OverlayCommitPoisoned(Cur.o)
    /\ StOk /\ Adv

TrRollback ==
    /\ IsEv("Rollback")
    /\ \/ Cur.res = "Ok" /\ Cur.n >= 1 /\ Rollback(Cur.n)
       \/ Cur.res = "Ok" /\ Cur.n = 0 /\ RollbackZero
       \/ Cur.res = "NotEnough" /\ RollbackOn /\ RollbackRefused(Cur.n)
       \/ Cur.res = "Disabled" /\ ~RollbackOn /\ RollbackRefused(Cur.n)
       \/ Cur.res = "Poisoned" /\ RollbackPoisoned(Cur.n)
    /\ StOk /\ Adv

TrClose  == IsEv("Close") /\ Close /\ StOk /\ Adv
TrReopen == IsEv("Reopen") /\ Cur.res = "Ok" /\ Reopen /\ StOk /\ Adv

\* a crash of the harness-driven process between operations (C03 traces): volatile state is lost
TrCrash  == IsEv("Crash") /\ Crash /\ StOk /\ Adv

(***************************************************************************)
(* Crash / power-loss images and injected I/O faults (C03, C04, C14).      *)
(* An Image record is the observation of the directory image of one crash  *)
(* point of the NEXT call in the trace (its `op`), reopened by the real    *)
(* store.  It is judged against the specification state before that call   *)
(* (old) and the state the call leads to (new): NomtApi!CommitCrashes.     *)
(***************************************************************************)
Obs(st, m, sq) ==
    /\ st.open /\ ~st.poisoned
    /\ R("kv") \/ \A k \in Keys : st.kv[k] = m[k]
    /\ R("kv") \/ st.probesOk
    /\ R("seqn") \/ st.seqn = sq
    /\ R("root") \/ st.rootOk
    /\ IF R("dec") \/ "dec" \notin DOMAIN st THEN TRUE ELSE st.dec.ok /\ st.dec.kvOk   \* C16 on recovered images
    \* C19 on recovered images: what the recovering process reports is what the recovered files hold
    /\ IF R("alloc") \/ "dec" \notin DOMAIN st THEN TRUE ELSE st.dec.noLeak /\ st.dec.occupiedOk

NewMapOf(o) ==
    IF o.a \in {"Commit", "TryCommit"} THEN Apply(kv, fin[o.f].w)
    ELSE IF o.a \in {"OverlayCommit", "OverlayTryCommit"} THEN Apply(kv, ovl[o.o].w)
    ELSE IF o.a = "Rollback" THEN (IF o.n <= Len(memLog) THEN Apply(kv, Traceback(memLog, o.n)) ELSE kv)
    ELSE kv
NewSeqnOf(o) == IF o.a = "Reopen" THEN seqn ELSE seqn + 1
\* for a reopen of a closed store the reference state is the durable image
OldMapOf(o) == IF o.a = "Reopen" THEN disk.kv ELSE kv
OldSeqnOf(o) == IF o.a = "Reopen" THEN disk.seqn ELSE seqn

ImageOldOrNew(r, allowOld) ==
    /\ r.res = "Ok"
    /\ R("cont") \/ r.contOk
    /\ \/ allowOld /\ Obs(r.st, OldMapOf(r.op), OldSeqnOf(r.op))
       \/ r.op.a # "Reopen" /\ Obs(r.st, NewMapOf(r.op), NewSeqnOf(r.op))

TrImage ==
    /\ IsEv("Image")
    /\ ImageOldOrNew(Cur, ~Cur.afterReturn \/ Cur.op.a = "Reopen")
    /\ UNCHANGED <<vars, roots>> /\ Adv

\* C14: an injected failure is reported, poisons the handle, later commits are refused, and the
\* directory reopens to the old or the new state (NomtApi!CommitFails).
TrFault ==
    /\ IsEv("Fault")
    /\ Cur.injected =>
          /\ Cur.isErr
          /\ Cur.poisoned /\ Cur.next = "Poisoned"
          \* (a reopen that fails carries no observation: decide before touching the other fields)
          /\ IF Cur.reopen.res = "Ok"
             THEN ImageOldOrNew([res |-> Cur.reopen.res, contOk |-> Cur.reopen.contOk, st |-> Cur.reopen.st,
                                 op |-> Cur.op], TRUE)
             ELSE FALSE
    /\ (~Cur.injected) => Cur.res = "Ok"
    /\ UNCHANGED <<vars, roots>> /\ Adv

\* concurrent traces: a read through a live session (its view never moves: C15), and the observation
\* of the quiescent store after all threads have ended
TrSessionRead ==
    /\ IsEv("SessionRead")
    /\ sess[Cur.s].st = "live"
    /\ \A k \in Keys : Cur.view[k] = sess[Cur.s].view[k]
    /\ Cur.viewProbesOk
    /\ UNCHANGED <<vars, roots>> /\ Adv

TrObserve ==
    /\ IsEv("Observe")
    /\ Obs(Cur.st, kv, seqn)
    /\ UNCHANGED <<vars, roots>> /\ Adv

TraceInit == Init /\ l = 1 /\ roots = [m \in Maps |-> 0]

TraceNext ==
    \/ TrReset
    \/ TrBegin \/ TrBeginRefused \/ TrDropSession \/ TrFinish \/ TrDropFinished
    \/ TrCommit \/ TrTryCommit \/ TrIntoOverlay \/ TrDropOverlay
    \/ TrOverlayCommit \/ TrOverlayTryCommit \/ TrRollback
    \/ TrClose \/ TrReopen \/ TrCrash \/ TrImage \/ TrFault \/ TrSessionRead \/ TrObserve

TraceSpec == TraceInit /\ [][TraceNext]_tvars

\* acceptance: every record was consumed (the state graph is a line; its diameter counts states)
TraceAccepted ==
    LET d == TLCGet("stats").diameter IN
    IF d - 1 = Len(Rec) THEN PrintT(<<"TRACE-ACCEPTED", Len(Rec)>>)
    ELSE Print(<<"TRACE-REJECTED", d, ToJson(Rec[d])>>, FALSE)

\* used by `vcheck --explain`: stop at record number IOEnv.STOP and print the specification state
StopAt == l < atoi(IOEnv.STOP)
=============================================================================
