SPECIFICATION Spec
CONSTANTS
  Keys = {"k1"}
  Vals = {"v1", "v2"}
  MaxLog = 2
  RollbackOn = TRUE
  MaxOvl = 3
  MaxFin = 1
  MaxSess = 1
  MaxSeqn = 3
  Faults = FALSE
  AllowUngrounded = FALSE
CONSTRAINT Bounded
INVARIANTS TypeOK RootCanonical DurableIsVisible LogMatchesHist AvailRetained LogBounded
  ReopenTransparent OverlayEquivalence MarkerCommitted SegEqMem
PROPERTIES RejectedIsNoOp PoisonedIsFrozen SeqnMonotone
CHECK_DEADLOCK FALSE
