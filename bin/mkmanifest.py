#!/usr/bin/env python3
"""Regenerates /verif/MANIFEST.json from the registry of checks (single source of truth)."""
import json, os, sys
sys.path.insert(0, os.path.dirname(os.path.abspath(__file__)))
from vlib import manifest_data as M

def main():
    checks = []
    for pid in sorted(M.CHECKS):
        c = M.CHECKS[pid]
        checks.append(dict(
            property_id=pid,
            quick_cmd="bin/vcheck %s quick" % pid,
            thorough_cmd="bin/vcheck %s thorough" % pid,
            evidence_file="/verif/evidence/%s.json" % pid,
            replay_cmd_template="bin/vcheck --replay {path}",
            engine=c["engine"],
            level_claimed=dict(category=c["level"], text=c["text"], design_ref=c["design_ref"]),
            level_note=c["note"],
            technique=c["technique"],
        ))
    man = dict(
        version=1,
        setup_cmd="bin/setup",
        hooks=dict(
            guard="nomt_verif",
            enable="--cfg nomt_verif (rustflags in /verif/harness/.cargo/config.toml; the harness has a path dependency on /repo/nomt, so every check rebuilds /repo's working tree with the hooks on)",
            baseline_off_cmd="cd /repo && cargo nextest run --workspace --no-fail-fast --test-threads 8 --offline || cargo test --workspace --no-fail-fast --offline",
            source_commits=M.HOOK_COMMITS,
            add_only=True,
        ),
        engines=M.ENGINES,
        checks=checks,
        notes=M.NOTES,
        not_applicable=[dict(property_id=p, reason=r) for p, r in sorted(M.NOT_APPLICABLE.items())],
    )
    with open(os.path.join(os.path.dirname(os.path.dirname(os.path.abspath(__file__))), "MANIFEST.json"), "w") as f:
        json.dump(man, f, indent=1)
    print("MANIFEST.json written:", len(checks), "checks,", len(M.NOT_APPLICABLE), "not applicable")

if __name__ == "__main__":
    main()
