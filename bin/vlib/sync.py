"""The durability family (C03 C04 C14 C17): NomtSync.tla is model-checked (every crash point, every
power-loss subset, nested crashes, guard mutants); the harness records the I/O events of real commits,
rollbacks and recoveries, synthesises the directory image of every crash point / power-loss choice, reopens
each with the real store (Image records judged by ApiTrace against NomtApi's old/new states) and TLC
validates the raw event streams against the ordering rules (SyncTrace)."""
import json, os, random, re, subprocess, time, shutil
from . import common as C, api, findings

GUARDS = ["cow", "fsync-after-complete", "wal-before-meta", "cow-before-meta", "seg-before-meta", "ht-after-meta",
          "trunc-after-htsync", "prune-after-meta", "recover-htsync", "recover-metasync"]

SYNC_CONSTS = """  CowFiles <- MC_CowFiles
  Pages <- MC_Pages
  LiveOld <- MC_LiveOld
  KeepOld <- MC_KeepOld
  Need <- MC_Need
  Beyond <- MC_Beyond
  HtPages <- MC_HtPages
  HtChanged <- MC_HtChanged
  WithRollback = %s
  SegRollsOver = %s
  PrunesOld = %s
  Drop = %s
  MaxCrashes = %d
"""


def mc_sync(tag, drop=(), maxcrashes=2, rb=True, rolls=True, prunes=True, timeout=1500):
    cfg = os.path.join(C.OUT, "MC_Sync_%s.cfg" % tag)
    with open(cfg, "w") as f:
        f.write("SPECIFICATION Spec\nCONSTANTS\n")
        f.write(SYNC_CONSTS % (C.tla_value(rb), C.tla_value(rolls), C.tla_value(prunes),
                               "{" + ", ".join('"%s"' % d for d in drop) + "}", maxcrashes))
        f.write("INVARIANTS OldOrNew DurableOldOrNew NoTornLog NoOverwriteOfOld FailureIsReported\n")
        f.write("PROPERTIES ReturnedIsNew\nCHECK_DEADLOCK FALSE\n")
    t0 = time.time()
    rc, out = C.run_tlc("MC_Sync.tla", cfg, tag="sync" + tag, timeout=timeout, nworkers=min(8, C.workers()))
    states, gen = C.tlc_stats(out)
    if rc == 124:
        raise C.ToolError("TLC timed out on MC_Sync %s" % tag)
    ok = rc == 0 and "No error has been found" in out
    violated = re.findall(r"Invariant (\w+) is violated|Temporal properties were violated", out)
    return dict(states=states, transitions=gen, ok=ok, output=out, wall=time.time() - t0, violated=violated)


CRASH_STORE_CFGS = [
    dict(hashtable_buckets=64),
    dict(hashtable_buckets=128, commit_concurrency=2, warm_up=True),
    dict(hashtable_buckets=256, commit_concurrency=3, page_cache_size=1, leaf_cache_size=1, page_cache_upper_levels=0, io_workers=1),
    dict(hashtable_buckets=512, commit_concurrency=7, prepopulate=True, page_cache_upper_levels=1),
    dict(hashtable_buckets=64, hasher="sha2", io_workers=1),
]

SYNC_OPS = ("Commit", "TryCommit", "OverlayCommit", "OverlayTryCommit", "Rollback", "Reopen")


def run_crash(scripts, tag, timeout=7200):
    nshards = max(1, min(C.workers(14), len(scripts)))
    scratch = C.scratch_dir("crash-" + tag)
    procs = []
    for i in range(nshards):
        sh = scripts[i::nshards]
        sp = os.path.join(scratch, "scripts%d.ndjson" % i)
        with open(sp, "w") as f:
            for sc in sh:
                f.write(json.dumps(sc) + "\n")
        op = os.path.join(scratch, "out%d.ndjson" % i)
        ep = os.path.join(scratch, "ev%d.ndjson" % i)
        p = C.Proc([C.NVH, "crash", sp, op, ep, os.path.join(scratch, "db%d" % i)], os.path.join(scratch, "log%d" % i))
        procs.append((p, op, ep))
    runs, events, hangs = {}, [], []
    for p, op, ep in procs:
        try:
            so, se = p.communicate(timeout=timeout)
        except subprocess.TimeoutExpired:
            p.kill()
            raise C.ToolError("nvh crash timed out")
        if p.returncode == 3:
            hp = os.path.splitext(op)[0] + ".hang"
            hangs.append(open(hp).read() if os.path.exists(hp) else se[-300:])
        elif p.returncode != 0:
            raise C.ToolError("nvh crash failed rc=%s: %s" % (p.returncode, se[-2000:]))
        if os.path.exists(op):
            with open(op) as f:
                for line in f:
                    if line.strip():
                        rec = json.loads(line)
                        runs.setdefault(rec["run"], []).append(rec)
        if os.path.exists(ep):
            with open(ep) as f:
                events.extend(json.loads(x) for x in f if x.strip())
    shutil.rmtree(scratch, ignore_errors=True)
    return runs, events, hangs


def validate_events(events, tag):
    """SyncTrace over the raw event streams.  Returns list of (rule, record index, record)."""
    if not events:
        return []
    tdir = os.path.join(C.OUT, "traces")
    os.makedirs(tdir, exist_ok=True)
    cfg = os.path.join(C.OUT, "SyncTrace_%s.cfg" % tag)
    with open(cfg, "w") as f:
        f.write("SPECIFICATION Spec\nPOSTCONDITION Finished\nCHECK_DEADLOCK FALSE\n")
    found = []
    chunk = 20000
    # cut at op boundaries
    starts = [i for i, e in enumerate(events) if e["ev"] == "op"] + [len(events)]
    pos = 0
    while pos < len(events):
        end = max([s for s in starts if s <= pos + chunk and s > pos] or [min([s for s in starts if s > pos])])
        part = events[pos:end]
        tp = os.path.join(tdir, "sync_%s_%d.ndjson" % (tag, pos))
        with open(tp, "w") as f:
            for e in part:
                f.write(json.dumps(e) + "\n")
        rc, out = C.run_tlc("SyncTrace.tla", cfg, tag="synctrace" + tag, nworkers=1, timeout=1800, heap="6g",
                            env_extra={"TRACE": tp}, java_opts="-Xss1g -Dtlc2.tool.queue.IStateQueue=StateDeque")
        if '"TRACE-COMPLETE"' not in out:
            raise C.ToolError("SyncTrace did not complete (rc=%d):\n%s" % (rc, out[-3000:]))
        for m in re.finditer(r'<<"RULE-VIOLATED", "([^"]+)", (\d+), "(.*)">>', out):
            try:
                rec = json.loads(C.untla_string(m.group(3)))
            except Exception:
                rec = m.group(3)
            found.append((m.group(1), pos + int(m.group(2)) - 1, rec))
        os.remove(tp)
        pos = end
    return found


RULE_PROP = {"cow": "C17", "list-rewritten": "C17", "ht-after-meta": "C17", "prune-after-meta": "C17", "wal-before-meta": "C04",
             "cow-before-meta": "C04", "seg-before-meta": "C04", "trunc-after-htsync": "C04",
             "recover-metasync": "C04", "recover-htsync": "C04"}

PLANS = {
    "C03": dict(quick=dict(behs=8, depth=20, mode="crash", budget=2, nested=1, stride=1, fs=[1, 3, 12, 25], mc_crashes=2, mutants=False, decode=True, max_ops=4, growth=2),
                thorough=dict(behs=40, depth=28, mode="crash", budget=3, nested=2, stride=1, fs=[1, 3, 25], mc_crashes=3, mutants=True, decode=True, growth=6)),
    # (growth scripts: merkle pages cross the elision threshold, so that a page is stored for the first time with nodes
    # the commit did not touch - what the WAL says about such a page matters only when the hash-table writes are lost)
    "C04": dict(quick=dict(behs=8, depth=20, mode="both", budget=6, nested=2, stride=1, fs=[1, 3], mc_crashes=2, mutants=True, max_ops=4, decode=True,
                           growth=2, growth_fs=[10, 12, 15], growth_embs=["deep(12)", "deep(18)", "deep(13)", "deep(12):z"]),
                thorough=dict(behs=16, depth=24, mode="both", budget=8, nested=2, stride=1, fs=[1, 3, 25], mc_crashes=3, mutants=True, decode=True, max_ops=6,
                              growth=4, growth_fs=[8, 10, 12, 15, 19, 21], growth_embs=["deep(12)", "deep(18)", "deep(13)", "deep(12):z", "deep(24)"])),
    "C17": dict(quick=dict(behs=60, depth=24, mode="none", budget=0, nested=0, stride=1, fs=[1, 3, 25, 60], mc_crashes=1, mutants=True, flsweep=10),
                thorough=dict(behs=600, depth=30, mode="none", budget=0, nested=0, stride=1, fs=[1, 3, 25, 60, 400], mc_crashes=2, mutants=True, flsweep=40)),
    # C16's crash leg: recovered images of histories whose merkle pages cross the elision threshold while parts of
    # them stay untouched (groups of 10-15 keys under one deep page), every image decoded by the independent decoder
    "C16": dict(quick=dict(behs=4, depth=18, mode="crash", budget=1, nested=0, stride=2, fs=[10, 12, 15], mc_crashes=1, mutants=False,
                           decode=True, max_ops=4, growth=4, embs=["deep(12)", "deep(18)", "deep(12):z", "deep(13)", "deep(24)"]),
                thorough=dict(behs=80, depth=26, mode="crash", budget=2, nested=1, stride=1, fs=[8, 10, 12, 15, 19, 21], mc_crashes=2,
                              mutants=False, decode=True, growth=60, embs=["deep(12)", "deep(18)", "deep(12):z", "deep(24)", "deep(13)", "spread(6)"])),
    # C19's crash leg: after a recovery that replays the WAL the reported occupancy must equal the number of
    # occupied buckets the independent decoder counts on the recovered image (growth scripts: many pages per sync)
    "C19": dict(quick=dict(behs=4, depth=18, mode="crash", budget=1, nested=0, stride=2, fs=[3, 25], mc_crashes=1, mutants=False,
                           decode=True, max_ops=4, growth=3, embs=["top", "scatter", "deep(12)"]),
                thorough=dict(behs=80, depth=26, mode="crash", budget=2, nested=1, stride=1, fs=[1, 3, 25, 60], mc_crashes=2,
                              mutants=False, decode=True, growth=40, embs=["top", "scatter", "deep(12)", "spread(6)"])),
    "C14": dict(quick=dict(behs=6, depth=14, faults=90, fs=[1, 3], mc_crashes=1, mutants=False, vts=["tiny", "edge", "ovf", "mixed", "big", "big", "huge"]),
                thorough=dict(behs=80, depth=24, faults=8000, fs=[1, 3, 25], mc_crashes=2, mutants=False,
                              vts=["tiny", "edge", "ovf", "mixed", "big", "big", "huge"])),
}

ASSUME = [
    "the kernel and the device honour fsync; torn 4 KiB pages are outside the fault model (as in the statement)",
    "every mutating file operation of the store goes through a hook site (H-io); the shadow disk is rebuilt from those events only",
    "power loss = durable view + any subset of unsynced in-place page writes/resizes of meta, ln, bbn, ht + a page-aligned cut of "
    "unsynced appends to wal / rollback segments; files whose directory entry was not synced vanish; lost unlinks are not modelled",
    "event order is the one linearisation recorded under the hook's mutex",
]


def gen_scripts(pid, plan, seed, rng, with_overlay=True):
    consts_all = []
    scripts = []
    classes = {}
    consts_by_class = {}
    run = 0
    for maxlog in (1, 2):
        consts = api.gen_constants(maxlog=maxlog)
        ckey = "ml%d_rb1" % maxlog
        consts_by_class[ckey] = consts
        behs = api.gen_behaviours(consts, max(300, 10 * plan["behs"]), plan["depth"], seed * 77 + maxlog, True, "%s_%d" % (pid, maxlog))
        kept = sorted([b for b in behs if api.interesting(b, "commit")], key=lambda b: -api.score(b, "sync"))[: (plan["behs"] + 1) // 2]
        for b in kept:
            store = dict(rng.choice(CRASH_STORE_CFGS))
            store.update(rollback=True, max_rollback_log_len=maxlog, seed=rng.randrange(1 << 30),
                         segment_size=rng.choice([0, 4096, 8192]))
            conc = dict(keys=sorted(consts["Keys"]), vals=sorted(consts["Vals"]),
                        emb=rng.choice(plan.get("embs") or (api.EMBEDDINGS_QUICK + ["deep(6)", "deep(12)", "deep(12)", "deep(18)"])),
                        f=rng.choice(plan["fs"]), vtable=api.VTABLES[rng.choice(plan.get("vts") or ["tiny", "edge", "ovf", "mixed"])],
                        seed=rng.randrange(1 << 30), probes=2)
            run += 1
            sc = api.make_script(run, b, store, conc)
            sc["crash_steps"] = [i for i, s in enumerate(b) if s["a"] in SYNC_OPS and s.get("res", "Ok") == "Ok"]
            if plan.get("max_ops") and len(sc["crash_steps"]) > plan["max_ops"]:
                # quick tier: a random subset of the operations, always including the last ones (deepest history)
                keep = set(sc["crash_steps"][-2:]) | set(rng.sample(sc["crash_steps"][:-2], plan["max_ops"] - 2))
                sc["crash_steps"] = sorted(keep)
            scripts.append(sc)
            classes[run] = ckey
    if plan.get("growth"):
        # one group at a time: sub-tries grow and shrink across the page-elision threshold while their neighbours
        # stay untouched (legal NomtApi behaviours; ApiTrace validates them like the generated ones)
        consts = consts_by_class["ml2_rb1"]
        keys = sorted(consts["Keys"])
        for gi in range(plan["growth"]):
            order = keys[:]
            rng.shuffle(order)
            beh = []
            def commit(w):
                beh.extend([dict(a="Begin", s=1, chain=[], res="Ok"), dict(a="Finish", s=1, f=1, w=w),
                            dict(a=rng.choice(["Commit", "TryCommit"]), f=1, res="Ok")])
            for k in order:
                commit({x: ("v1" if x == k else "NoCh") for x in keys})
            for k in order[:2]:
                commit({x: ("Nil" if x == k else "NoCh") for x in keys})
            commit({x: ("v2" if x == order[0] else "NoCh") for x in keys})
            store = dict(rng.choice(CRASH_STORE_CFGS))
            store.update(rollback=True, max_rollback_log_len=2, seed=rng.randrange(1 << 30), segment_size=0)
            conc = dict(keys=keys, vals=sorted(consts["Vals"]), emb=rng.choice(plan.get("growth_embs") or plan.get("embs") or ["deep(12)"]),
                        f=rng.choice(plan.get("growth_fs") or plan["fs"]), vtable=api.VTABLES["tiny"], seed=rng.randrange(1 << 30), probes=2)
            run += 1
            sc = api.make_script(run, beh, store, conc)
            sc["crash_steps"] = [i for i, s in enumerate(beh) if s["a"] in SYNC_OPS]
            scripts.append(sc)
            classes[run] = "ml2_rb1"
    return scripts, classes, consts_by_class


def freelist_sweep_scripts(pid, rng, first_run, n):
    """Scripts that bring the ln free list to "several full pages under a nearly empty head" and then free thousands of
    pages in one commit (free-list pages are popped, exhausted and rewritten inside FreeList::commit): a probe run
    measures the head's length after the first big release, the sweep writes a value of just the size that leaves
    0..n-1 (+-) entries in the head before the second big release.  All are legal NomtApi behaviours."""
    consts = api.gen_constants(maxlog=2)
    keys = sorted(consts["Keys"])
    NCH = {k: "NoCh" for k in keys}
    BIG = 9000000           # ~2200 overflow pages per value

    def beh_for(with_tail):
        beh = []
        def commit(w):
            beh.extend([dict(a="Begin", s=1, chain=[], res="Ok"), dict(a="Finish", s=1, f=1, w=dict(NCH, **w)), dict(a="Commit", f=1, res="Ok")])
        commit({keys[0]: "v1", keys[1]: "v1"})
        commit({keys[0]: "Nil"})
        if with_tail:
            commit({keys[2]: "v2"})
            commit({keys[1]: "Nil"})
            commit({keys[0]: "v2", keys[2]: "Nil"})
            commit({keys[0]: "Nil"})
        return beh

    def script(run, beh, v2):
        store = dict(hashtable_buckets=4096, rollback=True, max_rollback_log_len=2, seed=rng.randrange(1 << 30), segment_size=0)
        conc = dict(keys=keys, vals=sorted(consts["Vals"]), emb="top", f=1,
                    vtable={"v1": str(BIG), "v2": str(v2), "v3": "tiny"}, seed=12345, probes=1)
        return api.make_script(run, beh, store, conc)

    probe = script(first_run + 1, beh_for(False), 100)
    probe["decode"] = True
    runs, hangs = api.replay([probe], pid + "flprobe")
    head = None
    for rec in runs.get(first_run + 1, []):
        d = (rec.get("st") or {}).get("dec") if isinstance(rec.get("st"), dict) else None
        if rec.get("ev") == "Commit" and d and "ln" in d:
            ln = d["ln"]
            nfree = len(ln["free"]) if "free" in ln else ln.get("nfree", 0)
            nfl = len(ln["fl"]) if "fl" in ln else ln.get("nfl", 0)
            head = nfree - 1022 * max(nfl - 1, 0) if nfl else 0
    if head is None or head <= 0:
        C.log("[%s] free-list sweep: probe gave no usable head length (%s); family skipped" % (pid, head))
        return [], consts
    C.log("[%s] free-list sweep: head of the ln free list holds %d entries after the first big release" % (pid, head))
    out = []
    run = first_run + 1
    for j in range(n):
        left = j - 2                      # entries meant to stay in the head (around 0..n-3)
        pages = max(head - left - 3, 1)   # overflow pages of the filler value (the leaf rewrite takes a page or two)
        run += 1
        out.append(script(run, beh_for(True), pages * 4096 - 64))
    # empty-and-refill: everything is erased (the trees are empty, the free lists are not), a few keys come back in a
    # commit that takes pages from the free lists and releases none, and the store is reopened before the next commits
    # (what is on disk, not what is in memory, decides which pages those may write)
    for vt, f in (("tiny", 1), ("ovf", 1), ("tiny", 25), ("mixed", 60), ("big", 3), ("tiny", 200))[: max(2, min(6, n // 2))]:
        beh = []
        def commit(w):
            beh.extend([dict(a="Begin", s=1, chain=[], res="Ok"), dict(a="Finish", s=1, f=1, w=dict(NCH, **w)), dict(a="Commit", f=1, res="Ok")])
        commit({keys[0]: "v1", keys[1]: "v1", keys[2]: "v2"})
        commit({keys[0]: "Nil", keys[1]: "Nil", keys[2]: "Nil"})
        commit({keys[0]: "v2"})
        beh += [dict(a="Close"), dict(a="Reopen")]
        commit({keys[1]: "v2"})
        commit({keys[0]: "Nil"})
        commit({keys[2]: "v1", keys[1]: "Nil"})
        beh += [dict(a="Close"), dict(a="Reopen")]
        commit({keys[2]: "Nil"})
        commit({keys[1]: "v1"})
        run += 1
        store = dict(hashtable_buckets=4096, rollback=True, max_rollback_log_len=2, seed=rng.randrange(1 << 30), segment_size=0)
        conc = dict(keys=keys, vals=sorted(consts["Vals"]), emb="top", f=f, vtable=api.VTABLES[vt], seed=rng.randrange(1 << 30), probes=1)
        out.append(api.make_script(run, beh, store, conc))
    return out, consts


def run_plan(pid, tier, seed, extra_cov=None, t0=None):
    t0 = t0 or time.time()
    tier_name = tier
    plan = PLANS[pid][tier]
    rng = random.Random(seed * 15485863 + int(pid[1:]))
    violations, known, notes = [], [], []
    # 1. design level: NomtSync with every crash point and every power-loss subset
    mcs = []
    r = mc_sync(pid + "_base", maxcrashes=plan["mc_crashes"])
    mcs.append(dict(config="base", states=r["states"], transitions=r["transitions"], ok=r["ok"], wall_s=round(r["wall"], 1)))
    C.log("[%s] TLC NomtSync base: %d states, ok=%s (%.0fs)" % (pid, r["states"], r["ok"], r["wall"]))
    states, trans = r["states"], r["transitions"]
    if not r["ok"]:
        p = C.write_replay(pid, "design-sync", dict(kind="tlc-counterexample", output=r["output"][-20000:]))
        violations.append(dict(prop=pid, replay=p, what="NomtSync invariant violated at design level: %s" % r["violated"]))
    r2 = mc_sync(pid + "_norb", maxcrashes=plan["mc_crashes"], rb=False, rolls=False, prunes=False)
    mcs.append(dict(config="no-rollback", states=r2["states"], transitions=r2["transitions"], ok=r2["ok"], wall_s=round(r2["wall"], 1)))
    states += r2["states"]; trans += r2["transitions"]
    if not r2["ok"]:
        p = C.write_replay(pid, "design-sync-norb", dict(kind="tlc-counterexample", output=r2["output"][-20000:]))
        violations.append(dict(prop=pid, replay=p, what="NomtSync (no rollback) invariant violated at design level"))
    mutant_res = {}
    if plan.get("mutants"):
        for g in GUARDS:
            m = mc_sync("%s_mut_%s" % (pid, g.replace("-", "")), drop=(g,), maxcrashes=2)
            mutant_res[g] = (not m["ok"])
        dead = [g for g, caught in mutant_res.items() if not caught]
        C.log("[%s] guard mutants: %d/%d produce a counterexample%s" % (pid, len(GUARDS) - len(dead), len(GUARDS),
                                                                        (" NOT: %s" % dead) if dead else ""))
        if dead:
            raise C.ToolError("vacuous guard(s) in NomtSync: %s" % dead)
    if pid == "C17":
        # the free list of the value files has its own transcription (copy-on-write of the old list)
        from . import freelist
        fs, ft, fsum = freelist.design_level(pid, tier, violations)
        states += fs; trans += ft
        mcs.extend(dict(config=x["config"], states=x["states"], transitions=0, ok=x["ok"], wall_s=0) for x in fsum)
    # 2. the real code
    if pid == "C14":
        return run_faults(pid, tier, seed, plan, rng, t0, states, trans, mcs, violations)
    scripts, classes, consts_by_class = gen_scripts(pid, plan, seed, rng)
    if plan.get("flsweep"):
        extra, fconsts = freelist_sweep_scripts(pid, rng, max(sc["run"] for sc in scripts), plan["flsweep"])
        for sc in extra:
            sc["crash_steps"] = [i for i, s in enumerate(sc["steps"]) if s["a"] in SYNC_OPS]
            classes[sc["run"]] = "ml2_rb1"
        consts_by_class.setdefault("ml2_rb1", fconsts)
        scripts += extra
    for sc in scripts:
        sc.update(crash_mode=plan["mode"], budget=plan["budget"], nested=plan["nested"], stride=plan["stride"])
        if plan.get("decode"):
            sc["decode"] = True     # every recovered image is also decoded by the independent decoder (C16)
    C.log("[%s] %d scripts, recording I/O of every sync operation (mode=%s)" % (pid, len(scripts), plan["mode"]))
    runs, events, hangs = run_crash(scripts, pid)
    C.panic_violations(pid, runs, {sc["run"]: sc for sc in scripts}, violations)
    for h in hangs:
        p = C.write_replay(pid, "hang-%d" % len(violations), C.hang_payload(h, {sc["run"]: sc for sc in scripts}))
        violations.append(dict(prop=pid, replay=p, what="call did not return: " + h[:200]))
    script_by_run = {sc["run"]: sc for sc in scripts}
    n_images = sum(1 for rs in runs.values() for r in rs if r.get("ev") == "Image")
    n_ops = sum(1 for e in events if e["ev"] == "op")
    C.log("[%s] %d image observations, %d recorded operations, %d I/O events" % (pid, n_images, n_ops, len(events)))
    # 3. Image records judged by ApiTrace
    if pid == "C04":
        # process-crash images are C03's business (and a run is only judged up to its first rejected record): C04
        # judges the power-loss images, including those taken while a crashed process is being recovered
        runs = {r: [x for x in rs if not (x.get("ev") == "Image" and x.get("kind") == "crash")] for r, rs in runs.items()}
        n_images = sum(1 for rs in runs.values() for r in rs if r.get("ev") == "Image")
        C.log("[%s] %d power-loss image observations are judged" % (pid, n_images))
    accepted_total, rejections = 0, []
    for ckey, consts in consts_by_class.items():
        ids = sorted(r for r in runs if classes.get(r) == ckey)
        acc, rej = api.validate_runs(ids, runs, consts, "%s_%s" % (pid, ckey), max_rejections=12)
        accepted_total += len(acc)
        rejections.extend(rej)
    for rej in rejections:
        sc = script_by_run[rej["run"]]
        prop = api.attribute(rej, sc["steps"])
        rec = rej["record"]
        props = {prop}
        dec = (rec.get("st") or {}).get("dec") if isinstance(rec.get("st"), dict) else None
        if rec.get("ev") == "Image" and dec and not (dec.get("ok") and dec.get("kvOk")):
            props.add("C16")         # a recovered image that does not decode to a well-formed structure
        if rec.get("ev") == "Image" and dec and not (dec.get("occupiedOk", True) and dec.get("noLeak", True)):
            props.add("C19")         # occupancy / free-space accounting of the recovering process is off
        fid = findings.match_api(prop, rej, sc)
        if fid:
            known.append(fid)
            continue
        if pid not in props:
            notes.append("run %d rejected at %s (class %s): attributed to %s" % (rej["run"], rej["record"].get("ev"), rej["cls"], prop))
            continue
        prop = pid
        p = C.write_replay(pid, "run%d" % rej["run"], dict(kind="crash-image", property=prop, script=sc, rejected_record=rec,
                                                            failing_class=rej["cls"], tier=tier, seed=seed))
        violations.append(dict(prop=prop, replay=p,
                               what="image of %s k=%s variant=%s (%s, depth %s) reopens to res=%s kv=%s seqn=%s rootOk=%s contOk=%s: neither the old nor the new state"
                                    % (rec.get("op", {}).get("a"), rec.get("k"), rec.get("variant"), rec.get("kind"), rec.get("depth"),
                                       str(rec.get("res"))[:60], rec.get("st", {}).get("kv"), rec.get("st", {}).get("seqn"),
                                       rec.get("st", {}).get("rootOk"), rec.get("contOk"))))
    # 4. ordering rules on the raw event streams
    rule_hits = validate_events(events, pid)
    for rule, idx, rec in rule_hits:
        prop = RULE_PROP.get(rule, pid)
        if prop != pid:
            notes.append("ordering rule %s violated (attributed to %s)" % (rule, prop))
            continue
        p = C.write_replay(pid, "rule-%s-%d" % (rule, idx), dict(kind="sync-rule", property=prop, rule=rule, record=rec,
                                                                 script=script_by_run.get(rec.get("run")) if isinstance(rec, dict) else None,
                                                                 context=events[max(0, idx - 40): idx + 3]))
        violations.append(dict(prop=prop, replay=p, what="I/O ordering rule '%s' violated by %s" % (rule, json.dumps(rec)[:200])))
    return finish(pid, tier, seed, t0, states, trans, mcs, mutant_res, violations, known, notes,
                  evaluations=n_images + len(events), accepted=accepted_total, scripts=scripts, extra=dict(
                      images=n_images, recorded_ops=n_ops, io_events=len(events), rule_violations=len(rule_hits),
                      **({"other_leg": extra_cov} if extra_cov else {})),
                  distinct=len({(r.get("run"), r.get("i"), r.get("k"), r.get("variant"), r.get("kind"))
                                for rs in runs.values() for r in rs if r.get("ev") == "Image"}) + n_ops)


def run_faults(pid, tier, seed, plan, rng, t0, states, trans, mcs, violations):
    known, notes = [], []
    os.environ["NVH_WATCHDOG"] = "25"
    scripts, classes, consts_by_class = gen_scripts(pid, plan, seed, rng)
    for sc in scripts:
        sc.update(crash_mode="none", budget=0, nested=0, stride=1)
    # pass 1: learn how many failable operations each sync op performs
    runs1, events, hangs = run_crash(scripts, pid + "p1")
    C.panic_violations(pid, runs1, {sc["run"]: sc for sc in scripts}, violations)
    ops = [(e["run"], e["i"], e["failable"]) for e in events if e["ev"] == "op" and e.get("op", {}).get("a") != "Reopen" or
           (e["ev"] == "op" and e.get("failable", 0) > 0 and e.get("i") is not None and e.get("op", {}).get("a") == "Reopen" and False)]
    script_by_run = {sc["run"]: sc for sc in scripts}
    cand = []
    for run, i, n in ops:
        for k in range(n):
            cand.append((run, i, k))
    rng.shuffle(cand)
    cand = cand[: plan["faults"]]
    fscripts = []
    fclasses = {}
    frun = 0
    for run, i, k in cand:
        sc = dict(script_by_run[run])
        frun += 1
        sc = json.loads(json.dumps(sc))
        sc["run"] = frun
        sc["crash_steps"] = []
        sc["fault"] = dict(step=i, k=k, errno=rng.choice([5, 28]), persistent=rng.random() < 0.3)
        fscripts.append(sc)
        fclasses[frun] = classes[run]
    # bucket exhaustion: tiny hash tables and page-hungry batches; the first failing commit becomes a Fault record
    nex = 10 if tier == "quick" else 200
    for j in range(nex):
        src = scripts[j % len(scripts)]
        sc = json.loads(json.dumps(src))
        frun += 1
        sc["run"] = frun
        sc["crash_steps"] = []
        sc["exhaust"] = True
        # stored pages only exist for sub-tries with >= 20 leaves: scattered keys and big groups are needed to fill a table
        sc["cfg"]["hashtable_buckets"] = rng.choice([16, 32, 64])
        sc["conc"]["f"] = rng.choice([100, 200, 400])
        sc["conc"]["emb"] = rng.choice(["scatter", "scatter", "top"])
        sc["conc"]["vtable"] = api.VTABLES["tiny"]
        sc["lenient"] = False
        fscripts.append(sc)
        fclasses[frun] = classes[src["run"]]
    C.log("[%s] %d sync operations with %d failable I/O operations; injecting %d faults (+%d bucket-exhaustion runs)" %
          (pid, len(ops), sum(n for _, _, n in ops), len(fscripts) - nex, nex))
    runs, _, hangs2 = run_crash(fscripts, pid + "p2")
    C.panic_violations(pid, runs, {sc["run"]: sc for sc in fscripts}, violations)
    for h in hangs + hangs2:
        fid = findings.match_hang(pid, h)
        if fid:
            known.append(fid)
            continue
        p = C.write_replay(pid, "hang-%d" % len(violations), C.hang_payload(h, {sc["run"]: sc for sc in fscripts}))
        violations.append(dict(prop=pid, replay=p, what="a commit under an injected fault did not return: " + h[:200]))
    fs_by_run = {sc["run"]: sc for sc in fscripts}
    accepted_total, rejections = 0, []
    for ckey, consts in consts_by_class.items():
        ids = sorted(r for r in runs if fclasses.get(r) == ckey)
        acc, rej = api.validate_runs(ids, runs, consts, "%s_%s" % (pid, ckey), max_rejections=100000)
        accepted_total += len(acc)
        rejections.extend(rej)
    for rej in rejections:
        sc = fs_by_run[rej["run"]]
        # these runs exist to make a sync fail (injected I/O error / bucket exhaustion): whatever the store
        # does then that NomtApi does not allow (Ok, panic, no poison, broken reopen) contradicts C14
        prop = pid
        rec = rej["record"]
        fid = findings.match_generic("fault", prop, dict(poisoned=rec.get("poisoned"), next=rec.get("next"),
                                                         isErr=rec.get("isErr"), injFile=rec.get("injFile"), injKind=rec.get("injKind"),
                                                         reopenOk=rec.get("reopen", {}).get("res") == "Ok"))
        if fid:
            known.append(fid)
            continue
        if prop != pid:
            notes.append("run %d rejected at %s: attributed to %s" % (rej["run"], rec.get("ev"), prop))
            continue
        p = C.write_replay(pid, "fault-run%d" % rej["run"], dict(kind="fault", property=prop, script=sc, rejected_record=rec,
                                                                 failing_class=rej["cls"], tier=tier, seed=seed))
        violations.append(dict(prop=prop, replay=p,
                               what="fault k=%s errno=%s persistent=%s in %s: res=%s poisoned=%s next=%s reopen=%s"
                                    % (rec.get("k"), rec.get("errno"), rec.get("persistent"), rec.get("op", {}).get("a"),
                                       str(rec.get("res"))[:80], rec.get("poisoned"), rec.get("next"),
                                       str(rec.get("reopen", {}).get("res"))[:40])))
    nf = sum(1 for rs in runs.values() for r in rs if r.get("ev") == "Fault")
    ninj = sum(1 for rs in runs.values() for r in rs if r.get("ev") == "Fault" and r.get("injected"))
    return finish(pid, tier, seed, t0, states, trans, mcs, {}, violations, known, notes, evaluations=nf, accepted=accepted_total,
                  scripts=fscripts, extra=dict(fault_records=nf, faults_hit=ninj),
                  distinct=len({(json.dumps(s["steps"]), json.dumps(s.get("fault")), s.get("exhaust"), s["cfg"].get("hashtable_buckets"), s["conc"]["f"]) for s in fscripts}), level="fault_enumeration")


def finish(pid, tier, seed, t0, states, trans, mcs, mutant_res, violations, known, notes, *, evaluations, accepted, scripts,
           extra, distinct, level=None):
    for k in sorted(set(json.dumps(x, sort_keys=True) for x in known)):
        k = json.loads(k)
        C.log("KNOWN-FINDING: property=%s %s" % (k["property"], k["what"]))
    for n in notes[:15]:
        C.log("NOTE: " + n)
    for v in violations:
        C.log("VIOLATION property=%s replay=%s" % (v["prop"], v["replay"]))
        C.log("  " + v["what"])
    samples = []
    for sc in scripts[:2]:
        samples.append(dict(store=sc["cfg"], emb=sc["conc"]["emb"], F=sc["conc"]["f"], crash_steps=sc.get("crash_steps"),
                            fault=sc.get("fault"), mode=sc.get("crash_mode"),
                            steps=[{k: v for k, v in s.items() if k != "cfg"} for s in sc["steps"]]))
    lvl = level or {"C03": "fault_enumeration", "C04": "model_checking", "C17": "model_checking", "C14": "fault_enumeration",
                    "C16": "model_checking", "C19": "model_checking"}[pid]
    cov = dict(states=states, transitions=trans, traces_validated_against_impl=accepted, samples=samples or [{}],
               evaluations=max(evaluations, 1), distinct_nontrivial=max(distinct, 2),
               rule="scripts are TLC simulations of ApiGen; every successful sync operation (commit flavours, overlay commits, "
                    "rollbacks, reopens) is recorded; one case = (script, operation, event boundary k, in-flight / loss choice, "
                    "nesting) resp. (script, operation, failed I/O index, errno, persistence); each case lies strictly inside an "
                    "operation or at its return and is distinct by construction",
               exhaustive=False, model_checking=mcs, guard_mutants_caught=mutant_res, known_findings=sorted({k["id"] for k in known}),
               notes=notes[:15], **extra)
    if extra.get("other_leg"):
        for k in ("states", "transitions", "traces_validated_against_impl", "evaluations", "distinct_nontrivial"):
            cov[k] = cov.get(k, 0) + int(extra["other_leg"].get(k, 0))
    C.write_evidence(pid, tier, seed, lvl, cov, time.time() - t0, ASSUME,
                     violations=len(violations) + int((extra.get("other_leg") or {}).get("leg_violations", 0)))
    return 1 if violations else 0
