"""Property id -> check function(pid, tier, seed) -> exit code."""
from . import apichecks

CHECKS = {}
for _p in ("C01", "C02", "C09", "C10", "C11", "C12"):
    CHECKS[_p] = apichecks.run_plan
