"""Property id -> check function(pid, tier, seed) -> exit code."""
from . import apichecks, trie, sync, conc

CHECKS = {}
for _p in ("C01", "C02", "C06", "C09", "C10", "C11", "C12", "C13", "C16", "C19"):
    CHECKS[_p] = apichecks.run_plan
for _p in ("C05", "C07", "C08", "C18"):
    CHECKS[_p] = trie.run_plan
for _p in ("C03", "C04", "C14", "C17"):
    CHECKS[_p] = sync.run_plan
CHECKS["C15"] = conc.run_c15
CHECKS["C20"] = conc.run_c20
