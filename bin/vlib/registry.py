"""Property id -> check function(pid, tier, seed) -> exit code."""
from . import apichecks, trie, sync, conc

CHECKS = {}
for _p in ("C01", "C02", "C06", "C09", "C10", "C11", "C12", "C13", "C16", "C19"):
    CHECKS[_p] = apichecks.run_plan
for _p in ("C07", "C08", "C18"):
    CHECKS[_p] = trie.run_plan


def _c05(pid, tier, seed):
    """C05 has two legs: the proof-system leg (real proofs of every key of TLC-exported maps lifted to terms and
    judged by TrieTrace) and the API leg (proofs through overlays, reopened stores, boundary keys, elided pages,
    constrained by ApiTrace in every state)."""
    import json, os, time
    from . import common as C
    t0 = time.time()
    rc1 = trie.run_plan(pid, tier, seed)
    extra = None
    try:
        extra = json.load(open(os.path.join(C.EVID, "%s.json" % pid)))["coverage"]
        extra.pop("samples", None)
    except Exception:
        pass
    rc2 = apichecks.run_plan(pid, tier, seed, extra_cov=extra, t0=t0)
    return 1 if (rc1 or rc2) else 0


CHECKS["C05"] = _c05


def _c16(pid, tier, seed):
    """C16 has two legs: decoder observations at every quiescent point of API histories (ApiTrace) and decoder
    observations of every recovered crash image of histories that cross the page-elision threshold."""
    import json, os, time
    from . import common as C
    t0 = time.time()
    rc1 = apichecks.run_plan(pid, tier, seed)
    extra = None
    try:
        extra = json.load(open(os.path.join(C.EVID, "%s.json" % pid)))["coverage"]
        extra.pop("samples", None)
    except Exception:
        pass
    rc2 = sync.run_plan(pid, tier, seed, extra_cov=extra, t0=t0)
    return 1 if (rc1 or rc2) else 0


CHECKS["C16"] = _c16
CHECKS["C19"] = _c16     # same two legs: API histories + recovered crash images, judged for accounting
for _p in ("C03", "C04", "C14", "C17"):
    CHECKS[_p] = sync.run_plan


def _with_seglog(main):
    """C03 / C09 / C17: the Seglog leg (design level + SeglogTrace on recorded rollback-log operations) runs first;
    its coverage is merged into the evidence written by the main leg."""
    def run(pid, tier, seed):
        import time
        from . import seglog
        t0 = time.time()
        viol, cov = seglog.run_leg(pid, tier, seed)
        rc = main(pid, tier, seed, extra_cov=cov, t0=t0)
        return 1 if (viol or rc) else 0
    return run


CHECKS["C03"] = _with_seglog(sync.run_plan)
CHECKS["C17"] = _with_seglog(sync.run_plan)
CHECKS["C09"] = _with_seglog(apichecks.run_plan)
CHECKS["C15"] = conc.run_c15
CHECKS["C20"] = conc.run_c20
