"""Known findings (/verif/KNOWN_FINDINGS.json): genuine defects recorded rather than repaired.
A finding is identified by a specific signature; anything else that violates the same property
is still reported.  This module never writes the file."""
import json, os
from . import common as C


def _load():
    p = os.path.join(C.VERIF, "KNOWN_FINDINGS.json")
    if not os.path.exists(p):
        return []
    with open(p) as f:
        return json.load(f).get("findings", [])


def _rec_matches(rec, pat):
    for k, v in pat.items():
        if k == "res_prefix":
            if not str(rec.get("res", "")).startswith(v):
                return False
        elif k == "msg_contains":
            if v not in str(rec.get("msg", "")) and v not in str(rec.get("res", "")):
                return False
        elif isinstance(v, list):
            if rec.get(k) not in v:
                return False
        elif rec.get(k) != v:
            return False
    return True


SYNC_OK = ("Commit", "TryCommit", "OverlayCommit", "OverlayTryCommit", "Rollback")


def aba_commit_upto(steps, upto):
    """Index of the first successful commit (within steps[:upto]) of a changeset / overlay that was prepared BEFORE another
    successful sync which is not the commit of one of its own ancestors - i.e. the store moved away from the changeset's
    base and came back to it by value (rollback, inverse writes) - or None."""
    sess_chain, fin_at, fin_chain, ovl_at, ovl_chain = {}, {}, {}, {}, {}
    syncs = []          # (index, kind, id) of successful syncs
    for i, st in enumerate(steps[:upto]):
        a, ok = st.get("a"), st.get("res", "Ok") == "Ok"
        if a == "Begin" and ok:
            sess_chain[st.get("s")] = list(st.get("chain") or [])
        elif a == "Finish":
            fin_at[st.get("f")] = i
            fin_chain[st.get("f")] = sess_chain.get(st.get("s"), [])
        elif a == "IntoOverlay":
            ovl_at[st.get("o")] = fin_at.get(st.get("f"), i)
            ovl_chain[st.get("o")] = fin_chain.get(st.get("f"), [])
        elif a in SYNC_OK and ok:
            if a in ("Commit", "TryCommit"):
                born, anc = fin_at.get(st.get("f")), fin_chain.get(st.get("f"), [])
            elif a in ("OverlayCommit", "OverlayTryCommit"):
                born, anc = ovl_at.get(st.get("o")), ovl_chain.get(st.get("o"), [])
            else:
                born, anc = None, []
            if born is not None:
                foreign = [x for x in syncs if x[0] > born and not (x[1] == "ovl" and x[2] in anc)]
                if foreign:
                    return i
            syncs.append((i, "ovl" if a.startswith("Overlay") else ("rb" if a == "Rollback" else "fin"), st.get("o")))
        elif a in ("Close", "Reopen"):
            pass
    return None


def match_api(prop, rej, script):
    """signature kind 'api-trace': {at: {field: value..}, cls: [...], prior: [{a:..,res:..}, ...]};
    kind 'api-aba': the run contains, at or before the rejected record, the successful commit of a changeset whose base
    root recurred by value after other commits (see aba_commit_upto)."""
    for f in _load():
        sig = f.get("signature", {})
        if sig.get("kind") == "api-aba":
            if aba_commit_upto(script["steps"], rej["pos"] + 1) is not None:
                return dict(id=f["id"], property=f["property"], what=f["what"])
            continue
        if sig.get("kind") != "api-trace" or f.get("property") != prop:
            continue
        if "cls" in sig and rej["cls"] not in sig["cls"]:
            continue
        if not _rec_matches(rej["record"], sig.get("at", {})):
            continue
        steps = script["steps"][: rej["pos"]]
        ok = True
        i = 0
        for pat in sig.get("prior", []):
            while i < len(steps) and not _rec_matches(steps[i], pat):
                i += 1
            if i >= len(steps):
                ok = False
                break
            i += 1
        if ok:
            return dict(id=f["id"], property=f["property"], what=f["what"])
    return None


def match_hang(prop, what):
    for f in _load():
        sig = f.get("signature", {})
        if sig.get("kind") == "hang" and sig.get("contains", "\0") in what:
            return dict(id=f["id"], property=f["property"], what=f["what"])
    return None


def match_generic(kind, prop, fields):
    """signature kind <kind>: every key of signature['match'] must equal the field."""
    for f in _load():
        sig = f.get("signature", {})
        if sig.get("kind") != kind or f.get("property") != prop:
            continue
        if not all(fields.get(k) == v for k, v in sig.get("match", {}).items()):
            continue
        if not all(fields.get(k) in v for k, v in sig.get("match_in", {}).items()):
            continue
        return dict(id=f["id"], property=f["property"], what=f["what"])
    return None
