"""Known findings (/verif/KNOWN_FINDINGS.json): genuine defects recorded rather than repaired.
A finding is identified by a specific signature; anything else that violates the same property
is still reported.  This module never writes the file."""
import json, os
from . import common as C


def _load():
    p = os.path.join(C.VERIF, "KNOWN_FINDINGS.json")
    if not os.path.exists(p):
        return []
    with open(p) as f:
        return json.load(f).get("findings", [])


def _rec_matches(rec, pat):
    for k, v in pat.items():
        if k == "res_prefix":
            if not str(rec.get("res", "")).startswith(v):
                return False
        elif k == "msg_contains":
            if v not in str(rec.get("msg", "")) and v not in str(rec.get("res", "")):
                return False
        elif isinstance(v, list):
            if rec.get(k) not in v:
                return False
        elif rec.get(k) != v:
            return False
    return True


def match_api(prop, rej, script):
    """signature kind 'api-trace': {at: {field: value..}, cls: [...], prior: [{a:..,res:..}, ...]}"""
    for f in _load():
        sig = f.get("signature", {})
        if sig.get("kind") != "api-trace" or f.get("property") != prop:
            continue
        if "cls" in sig and rej["cls"] not in sig["cls"]:
            continue
        if not _rec_matches(rej["record"], sig.get("at", {})):
            continue
        steps = script["steps"][: rej["pos"]]
        ok = True
        i = 0
        for pat in sig.get("prior", []):
            while i < len(steps) and not _rec_matches(steps[i], pat):
                i += 1
            if i >= len(steps):
                ok = False
                break
            i += 1
        if ok:
            return dict(id=f["id"], property=f["property"], what=f["what"])
    return None


def match_hang(prop, what):
    for f in _load():
        sig = f.get("signature", {})
        if sig.get("kind") == "hang" and sig.get("contains", "\0") in what:
            return dict(id=f["id"], property=f["property"], what=f["what"])
    return None


def match_generic(kind, prop, fields):
    """signature kind <kind>: every key of signature['match'] must equal the field."""
    for f in _load():
        sig = f.get("signature", {})
        if sig.get("kind") != kind or f.get("property") != prop:
            continue
        if not all(fields.get(k) == v for k, v in sig.get("match", {}).items()):
            continue
        if not all(fields.get(k) in v for k, v in sig.get("match_in", {}).items()):
            continue
        return dict(id=f["id"], property=f["property"], what=f["what"])
    return None
