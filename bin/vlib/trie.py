"""The proof family (C05 C06 C07 C08 C18, root half of C02): Trie.tla is model-checked over all maps
(MC_Trie), TLC exports the maps, the harness obtains real proofs for them from a real store, derives
adversarial objects, runs the real verifiers, and TLC evaluates the specification on every recorded
call (TrieTrace)."""
import json, os, random, re, subprocess, time, shutil
from . import common as C, api, findings

VT = {"a": "tiny", "b": "small", "c": "overflow-min"}


def mc_trie(n, maxkeys, tag, export=False, timeout=3000, vals=("a", "b")):
    cfg = os.path.join(C.OUT, "MC_Trie_%s.cfg" % tag)
    invs = ["Completeness", "RootInjectiveLocally", "Soundness"]
    if export:
        invs = ["Export"]
    C.write_cfg(cfg, "Spec", dict(N=n, Vals=set(vals), MaxKeys=maxkeys), invariants=invs)
    t0 = time.time()
    rc, out = C.run_tlc("MC_Trie.tla", cfg, tag="trie" + tag, timeout=timeout)
    states, gen = C.tlc_stats(out)
    ok = rc == 0 and "No error has been found" in out
    if rc == 124:
        raise C.ToolError("TLC timed out on MC_Trie %s" % tag)
    return dict(states=states, transitions=gen, ok=ok, output=out, wall=time.time() - t0)


def export_maps(n, maxkeys, tag, vals=("a", "b")):
    r = mc_trie(n, maxkeys, tag + "x", export=True, vals=vals)
    maps = []
    for m in C.parse_printed_json(r["output"], "KV"):
        maps.append([(list(k), v) for k, v in m])
    if not maps:
        raise C.ToolError("map export produced nothing:\n" + r["output"][-1500:])
    return maps


def bitstrings(n):
    return [[(i >> (n - 1 - b)) & 1 for b in range(n)] for i in range(1 << n)]


def make_cases(maps, n, rng, *, prefixes=((),), modes=("committed",), mutants=0, multis=0, updates=0, limit=None,
               store_cfgs=None, sparse=0):
    cases = []
    cid = 0
    order = list(range(len(maps)))
    rng.shuffle(order)
    if limit:
        # keep the empty / singleton maps, `sparse` maps of 2-3 keys (tries in which single leaves sit high up and
        # compaction across emptied sub-tries happens) plus a random rest
        tiny = [i for i in order if len(maps[i]) <= 1]
        few = [i for i in order if 2 <= len(maps[i]) <= 3][:sparse]
        rest = [i for i in order if i not in set(tiny) | set(few)]
        order = (tiny + few + rest)[:limit]
    for i in order:
        kv = maps[i]
        pre = list(rng.choice(prefixes))
        l = len(pre) + n
        cid += 1
        store = dict(rng.choice(store_cfgs or api.STORE_CFGS))
        store["rollback"] = False
        cases.append(dict(id=cid, l=l, kv=[[pre + k, v] for k, v in kv], universe=[pre + b for b in bitstrings(n)],
                          vals=sorted({v for _, v in kv} | {"a", "b"}), cfg=store, vtable=VT, seed=rng.randrange(1 << 30),
                          mode=rng.choice(modes), mutants=mutants, multis=multis, updates=updates))
    return cases


def run_proofs(cases, tag, timeout=3000):
    nshards = max(1, min(C.workers(14), len(cases)))
    scratch = C.scratch_dir("proofs-" + tag)
    procs = []
    for i in range(nshards):
        sh = cases[i::nshards]
        cp = os.path.join(scratch, "cases%d.ndjson" % i)
        with open(cp, "w") as f:
            for c in sh:
                f.write(json.dumps(c) + "\n")
        op = os.path.join(scratch, "rec%d.ndjson" % i)
        p = C.Proc([C.NVH, "proofs", cp, op, os.path.join(scratch, "db%d" % i)], os.path.join(scratch, "log%d" % i))
        procs.append((p, op))
    recs = []
    hangs = []
    for p, op in procs:
        try:
            so, se = p.communicate(timeout=timeout)
        except subprocess.TimeoutExpired:
            p.kill()
            raise C.ToolError("nvh proofs timed out")
        if p.returncode == 3:
            hp = os.path.splitext(op)[0] + ".hang"
            hangs.append(open(hp).read() if os.path.exists(hp) else se[-300:])
        elif p.returncode != 0:
            raise C.ToolError("nvh proofs failed rc=%s: %s" % (p.returncode, se[-2000:]))
        if os.path.exists(op):
            with open(op) as f:
                recs.extend(json.loads(x) for x in f if x.strip())
    shutil.rmtree(scratch, ignore_errors=True)
    return recs, hangs


def validate_records(recs, tag, chunk=4000):
    """TLC evaluates Trie.tla on every record.  Returns list of indices of failing records."""
    bad = []
    tdir = os.path.join(C.OUT, "traces")
    os.makedirs(tdir, exist_ok=True)
    cfg = os.path.join(C.OUT, "TrieTrace_%s.cfg" % tag)
    with open(cfg, "w") as f:
        f.write("SPECIFICATION Spec\nPOSTCONDITION Finished\nCHECK_DEADLOCK FALSE\n")
    for start in range(0, len(recs), chunk):
        part = recs[start:start + chunk]
        tp = os.path.join(tdir, "trie_%s_%d.ndjson" % (tag, start))
        with open(tp, "w") as f:
            for r in part:
                f.write(json.dumps(r) + "\n")
        rc, out = C.run_tlc("TrieTrace.tla", cfg, tag="trietrace" + tag, nworkers=1, timeout=1800, heap="6g",
                            env_extra={"TRACE": tp},
                            java_opts="-Xss1g -Dtlc2.tool.queue.IStateQueue=StateDeque")
        if '"TRACE-COMPLETE"' not in out:
            raise C.ToolError("TrieTrace did not complete (rc=%d):\n%s" % (rc, out[-3000:]))
        for m in re.finditer(r'<<"BAD-RECORD", (\d+)>>', out):
            bad.append(start + int(m.group(1)) - 1)
        os.remove(tp)
    return sorted(set(bad))


def classify(rec):
    """Which property does a failing record contradict?"""
    k = rec.get("k")
    src = str(rec.get("src", ""))
    panic = "PANIC" in json.dumps(rec.get("verify", "")) or '"PANIC"' in json.dumps(rec)
    if k == "root":
        return "C02"
    if k == "path":
        if src == "store":
            return "C05"
        return "C18" if panic else "C08"
    if k == "update":
        if rec.get("res") == "PANIC":
            return "C18"
        # an adversarial update (malformed operation list, a path proven against another root) accepted or judged
        # differently is a soundness matter; an honest one belongs to the witness replay property
        return "C08" if rec.get("malform") else "C06"
    if k == "multi":
        if src == "honest":
            return "C18" if panic else "C07"
        return "C18" if panic else "C08"
    return "C05"


PLANS = {
    # pid: tier -> dict
    "C05": dict(quick=dict(mc=(3, 4), n=3, maxkeys=8, limit=150, prefixes=[(), (0, 1), (1, 0, 1, 1, 0, 1, 0)],
                           modes=["committed", "overlay", "reopen"], mutants=0, multis=0, updates=0),
                thorough=dict(mc=(3, 8), n=3, maxkeys=8, limit=None,
                              prefixes=[(), (1,), (0, 1, 1, 0, 1), (1, 0, 1, 1, 0, 1), (1, 0, 1, 1, 0, 1, 0), tuple([1, 0] * 6)],
                              modes=["committed", "overlay", "reopen"], mutants=0, multis=0, updates=0, extra_n4=400)),
    "C07": dict(quick=dict(mc=(3, 4), n=3, maxkeys=8, limit=160, prefixes=[(), (0, 1)], modes=["committed"],
                           mutants=0, multis=10, updates=3, sparse=90),
                thorough=dict(mc=(3, 8), n=3, maxkeys=8, limit=None, prefixes=[(), (1,), (0, 1, 1, 0, 1, 1)],
                              modes=["committed", "reopen"], mutants=0, multis=12, updates=6, extra_n4=400)),
    "C08": dict(quick=dict(mc=(3, 4), n=3, maxkeys=8, limit=100, prefixes=[(), (0, 1)], modes=["committed"],
                           mutants=10, multis=3, updates=8),
                thorough=dict(mc=(3, 8), n=3, maxkeys=8, limit=None, prefixes=[(), (1,), (0, 1, 1, 0, 1, 1)],
                              modes=["committed"], mutants=40, multis=6, updates=10, extra_n4=300)),
    "C18": dict(quick=dict(mc=(3, 3), n=3, maxkeys=8, limit=100, prefixes=[(), (0, 1)], modes=["committed"],
                           mutants=12, multis=4, updates=4),
                thorough=dict(mc=(3, 5), n=3, maxkeys=8, limit=None, prefixes=[(), (1,), (0, 1, 1, 0, 1, 1)],
                              modes=["committed"], mutants=40, multis=8, updates=8, extra_n4=300)),
}

ASSUME = [
    "hashes are injective constructors in the specification (collision resistance, domain separation of node kinds)",
    "model keys are 3-4 bit strings (under short common prefixes) embedded at the top of the 256-bit key space",
    "the term evaluator (harness/src/term.rs) maps terms to hashes with the store's own hasher; its Root is checked against Trie!Root on every case",
]


def run_plan(pid, tier, seed):
    t0 = time.time()
    plan = PLANS[pid][tier]
    rng = random.Random(seed * 104729 + int(pid[1:]))
    violations, known, notes = [], [], []
    # 1. design level
    n_mc, k_mc = plan["mc"]
    r = mc_trie(n_mc, k_mc, "%s_mc" % pid)
    C.log("[%s] TLC MC_Trie N=%d MaxKeys=%d: %d maps/states, ok=%s (%.0fs)" % (pid, n_mc, k_mc, r["states"], r["ok"], r["wall"]))
    if not r["ok"]:
        p = C.write_replay(pid, "design-trie", dict(kind="tlc-counterexample", output=r["output"][-20000:]))
        violations.append(dict(prop=pid, replay=p, what="Trie theorem violated at design level"))
    # 2. maps exported by TLC
    maps = export_maps(plan["n"], plan["maxkeys"], pid)
    cases = make_cases(maps, plan["n"], rng, prefixes=plan["prefixes"], modes=plan["modes"], mutants=plan["mutants"],
                       multis=plan["multis"], updates=plan["updates"], limit=plan["limit"], sparse=plan.get("sparse", 0))
    if plan.get("extra_n4"):
        maps4 = export_maps(4, 5, pid + "n4", vals=("a",))
        cases += [dict(c, id=c["id"] + 100000) for c in
                  make_cases(maps4, 4, rng, prefixes=plan["prefixes"][:2], modes=plan["modes"], mutants=plan["mutants"],
                             multis=plan["multis"], updates=plan["updates"], limit=plan["extra_n4"])]
    C.log("[%s] %d maps exported by TLC, %d cases" % (pid, len(maps), len(cases)))
    # 3./4. the real code, judged by TLC record by record - in chunks of cases, so that a thorough run
    #       (thousands of cases, millions of verifier calls) never holds more than one chunk in memory
    by_case = {c["id"]: c for c in cases}
    attributed = {}
    kinds = {}
    distinct = set()
    samples = []
    n_recs = n_bad = 0
    CHUNK = 400
    for c0 in range(0, len(cases), CHUNK):
        chunk = cases[c0:c0 + CHUNK]
        recs, hangs = run_proofs(chunk, "%s_%d" % (pid, c0 // CHUNK))
        for h in hangs:
            p = C.write_replay(pid, "hang-%d" % len(violations), dict(kind="hang", what=h))
            violations.append(dict(prop=pid, replay=p, what="verifier or prover did not return: " + h[:200]))
        bad = validate_records(recs, "%s_%d" % (pid, c0 // CHUNK))
        n_recs += len(recs)
        n_bad += len(bad)
        for i in bad:
            rec = recs[i]
            prop = classify(rec)
            fid = findings.match_generic("trie-record", prop, dict(k=rec.get("k"), verify=rec.get("verify"),
                                                                    cls=str(rec.get("src", "")).split(":")[1] if ":" in str(rec.get("src", "")) else rec.get("src"),
                                                                    mclass=re.sub(r"[0-9@]+", "", str(rec.get("src", "")).split(":")[1]) if ":" in str(rec.get("src", "")) else ""))
            if fid:
                known.append(fid)
                continue
            lst = attributed.setdefault(prop, [0, []])
            lst[0] += 1
            if len(lst[1]) < 5:
                lst[1].append((n_recs - len(recs) + i, rec))
        for rec in recs:
            key = (rec.get("k"), str(rec.get("src", "")).split(":")[0])
            kinds[key] = kinds.get(key, 0) + 1
            distinct.add(hash(C.sha([rec.get("kv"), rec.get("key"), rec.get("proof"), rec.get("ups"), rec.get("keys"), rec.get("src")])))
        if len(samples) < 3:
            samples += [dict((k, v) for k, v in r.items() if k not in ("cv", "cn", "cvx", "queries")) for r in recs[1:200:67]][:3 - len(samples)]
        if c0 + CHUNK < len(cases):
            C.log("[%s] %d / %d cases, %d records judged, %d rejected" % (pid, c0 + len(chunk), len(cases), n_recs, n_bad))
        del recs
    for prop, (cnt, firsts) in attributed.items():
        if prop != pid:
            notes.append("%d records contradict %s (reported by its own check), e.g. record %d" % (cnt, prop, firsts[0][0]))
            continue
        for i, rec in firsts:
            p = C.write_replay(pid, "rec%d" % i, dict(kind="trie-record", property=prop, record=rec,
                                                      case=by_case.get(rec.get("case")), tier=tier, seed=seed))
            violations.append(dict(prop=prop, replay=p, what="real %s call disagrees with Trie.tla (src=%s verify=%s)" %
                                                              (rec.get("k"), rec.get("src"), rec.get("verify", rec.get("res")))))
    for k in sorted(set(json.dumps(x, sort_keys=True) for x in known)):
        k = json.loads(k)
        C.log("KNOWN-FINDING: property=%s %s" % (k["property"], k["what"]))
    for n in notes:
        C.log("NOTE: " + n)
    for v in violations:
        C.log("VIOLATION property=%s replay=%s" % (v["prop"], v["replay"]))
        C.log("  " + v["what"])
    level = "exploration" if pid == "C18" else "model_checking"
    cov = dict(states=r["states"], transitions=max(r["transitions"], 1), traces_validated_against_impl=n_recs - n_bad,
               samples=samples or [{}], evaluations=n_recs, distinct_nontrivial=len(distinct),
               rule="cases = maps exported by TLC (MC_Trie) x prefix x store mode; records = real prover/verifier calls "
                    "(honest proofs of every key, seeded mutants from the C08 grammar, multi-proofs over random terminal "
                    "subsets, update batches); distinct by hash of (map, key, object, source); every record is non-trivial: "
                    "it is one real call with its verdict judged by TLC",
               exhaustive=False, records_by_kind={"%s/%s" % k: v for k, v in sorted(kinds.items())},
               records_rejected=n_bad, known_findings=sorted({k["id"] for k in known}), notes=notes,
               design_level=dict(module="MC_Trie", N=n_mc, MaxKeys=k_mc, maps=r["states"], wall_s=round(r["wall"], 1)))
    C.write_evidence(pid, tier, seed, level, cov, time.time() - t0, ASSUME, violations=len(violations))
    return 1 if violations else 0
