"""FreeList.tla: the paginated copy-on-write free list (beatree/allocator/free_list.rs transcribed), model-checked with
its guard mutants.  Design-level leg of C17 (copy-on-write of the old list) and C19 (nothing lost, nothing twice)."""
import os, re, time
from . import common as C

INVS = ["ListWellFormed", "CopyOnWrite", "NoWriteToLiveOrFreed", "Conservation", "DiskMatchesMemory", "NoLeftoverPages", "HeadMovesWhenTaken"]
CONFIGS = {
    "quick": [dict(M=3, MaxPage=14, MaxAlloc=3, MaxFreed=5, MaxSyncs=3, AllSubsets=True),
              dict(M=2, MaxPage=14, MaxAlloc=3, MaxFreed=6, MaxSyncs=4, AllSubsets=True)],
    "thorough": [dict(M=3, MaxPage=18, MaxAlloc=3, MaxFreed=8, MaxSyncs=4, AllSubsets=True),
                 dict(M=2, MaxPage=14, MaxAlloc=3, MaxFreed=6, MaxSyncs=4, AllSubsets=True),
                 dict(M=3, MaxPage=18, MaxAlloc=5, MaxFreed=8, MaxSyncs=4, AllSubsets=False),
                 dict(M=4, MaxPage=18, MaxAlloc=4, MaxFreed=9, MaxSyncs=3, AllSubsets=True)],
}
MUTANTS = {
    "renumber-head": dict(M=3, MaxPage=14, MaxAlloc=3, MaxFreed=5, MaxSyncs=3, AllSubsets=True),
    "new-full-portion": dict(M=3, MaxPage=26, MaxAlloc=8, MaxFreed=9, MaxSyncs=5, AllSubsets=False),
    "dirty-on-every-pop": dict(M=3, MaxPage=14, MaxAlloc=3, MaxFreed=5, MaxSyncs=3, AllSubsets=True),
}


def mc(tag, consts, drop=(), timeout=2400):
    cfg = os.path.join(C.OUT, "FreeList_%s.cfg" % tag)
    cc = dict(consts)
    cc["Drop"] = set(drop)
    C.write_cfg(cfg, "Spec", cc, invariants=INVS)
    t0 = time.time()
    rc, out = C.run_tlc("FreeList.tla", cfg, tag="freelist" + tag, timeout=timeout, nworkers=min(8, C.workers()))
    if rc == 124:
        raise C.ToolError("TLC timed out on FreeList %s" % tag)
    states, gen = C.tlc_stats(out)
    ok = rc == 0 and "No error has been found" in out
    violated = re.findall(r"Invariant (\w+) is violated", out)
    if not ok and not violated:
        raise C.ToolError("FreeList %s: TLC failed without a counterexample:\n%s" % (tag, out[-2000:]))
    return dict(states=states, transitions=gen, ok=ok, violated=violated, wall=time.time() - t0)


def design_level(pid, tier, violations):
    """Returns (states, transitions, summaries); appends design-level violations."""
    states = trans = 0
    summ = []
    for i, consts in enumerate(CONFIGS[tier]):
        r = mc("%s_%d" % (pid, i), consts)
        C.log("[%s] TLC FreeList M=%d MaxPage=%d syncs=%d: %d states, ok=%s (%.0fs)" % (pid, consts["M"], consts["MaxPage"],
                                                                                        consts["MaxSyncs"], r["states"], r["ok"], r["wall"]))
        states += r["states"]
        trans += r["transitions"]
        summ.append(dict(config="FreeList %s" % consts, states=r["states"], ok=r["ok"]))
        if not r["ok"]:
            p = C.write_replay(pid, "freelist-design-%d" % i, dict(kind="freelist-design", property=pid, violated=r["violated"], consts=str(consts)))
            violations.append(dict(prop=pid, replay=p, what="FreeList.tla violates %s" % r["violated"]))
    for g, consts in MUTANTS.items():
        r = mc("%s_mut_%s" % (pid, g.replace("-", "")), consts, drop=(g,))
        summ.append(dict(config="FreeList without guard %s" % g, states=r["states"], ok=r["ok"], expect_violation=True))
        if r["ok"]:
            raise C.ToolError("vacuous guard in FreeList: %s" % g)
    return states, trans, summ
