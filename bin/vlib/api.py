"""The API family of checks (C01 C02 C09 C10 C11 C12 and, through the same traces, parts of C05 C06):
   TLC model-checks NomtApi, TLC generates behaviours (ApiGen), the harness replays them against the
   real store under several concretisations, TLC validates the recorded observations (ApiTrace)."""
import json, os, random, time, copy
from . import common as C

# ----------------------------------------------------------------------------------------------
# model checking configurations (design level)
# ----------------------------------------------------------------------------------------------
INVS = ["TypeOK", "RootCanonical", "DurableIsVisible", "LogMatchesHist", "AvailRetained", "LogBounded",
        "ReopenTransparent", "OverlayEquivalence", "MarkerCommitted", "SegEqMem"]
PROPS = ["RejectedIsNoOp", "PoisonedIsFrozen", "SeqnMonotone"]

MC_CONFIGS = {
    # name: (constants, expected wall)
    "core": dict(Keys={"k1", "k2"}, Vals={"v1"}, MaxLog=1, RollbackOn=True, MaxOvl=0, MaxFin=2, MaxSess=1,
                 MaxSeqn=3, Faults=True, AllowUngrounded=False),
    "core2": dict(Keys={"k1"}, Vals={"v1", "v2"}, MaxLog=2, RollbackOn=True, MaxOvl=0, MaxFin=2, MaxSess=1,
                  MaxSeqn=4, Faults=True, AllowUngrounded=False),
    "ovl": dict(Keys={"k1"}, Vals={"v1"}, MaxLog=2, RollbackOn=True, MaxOvl=2, MaxFin=1, MaxSess=1,
                MaxSeqn=3, Faults=False, AllowUngrounded=False),
    "ovl3": dict(Keys={"k1"}, Vals={"v1"}, MaxLog=1, RollbackOn=True, MaxOvl=3, MaxFin=1, MaxSess=1,
                 MaxSeqn=2, Faults=False, AllowUngrounded=False),
    "norb": dict(Keys={"k1"}, Vals={"v1"}, MaxLog=1, RollbackOn=False, MaxOvl=1, MaxFin=2, MaxSess=1,
                 MaxSeqn=3, Faults=True, AllowUngrounded=False),
}


def mc(name, tag, timeout=1500):
    consts = MC_CONFIGS[name]
    cfg = os.path.join(C.OUT, "MC_Api_%s_%s.cfg" % (name, tag))
    C.write_cfg(cfg, "Spec", consts, invariants=INVS, properties=PROPS, constraints=["Bounded"])
    r = C.model_check("MC_Api.tla", cfg, tag="mcapi" + name, timeout=timeout)
    r["config"] = name
    return r


# ----------------------------------------------------------------------------------------------
# behaviour generation
# ----------------------------------------------------------------------------------------------
def gen_constants(maxlog=2, rollback=True, nkeys=3, nvals=2, maxovl=3, maxfin=2, maxsess=2):
    return dict(Keys={"k%d" % i for i in range(1, nkeys + 1)}, Vals={"v%d" % i for i in range(1, nvals + 1)},
                MaxLog=maxlog, RollbackOn=rollback, MaxOvl=maxovl, MaxFin=maxfin, MaxSess=maxsess,
                MaxSeqn=1000000, Faults=False, AllowUngrounded=False)


def gen_behaviours(consts, num, depth, seed, lean, tag):
    cfg = os.path.join(C.OUT, "ApiGen_%s.cfg" % tag)
    cc = dict(consts)
    cc["GenDepth"] = depth
    cc["Lean"] = lean
    C.write_cfg(cfg, "GenSpec", cc, invariants=["Emit"])
    # one worker: `num` behaviours, reproducible from the seed
    rc, out = C.run_tlc("ApiGen.tla", cfg, tag="gen" + tag, nworkers=1, timeout=600,
                        mode_args=("-simulate", "num=%d" % num, "-depth", str(depth + 1), "-seed", str(seed)))
    behs = C.parse_printed_json(out, "BEH")
    if not behs:
        raise C.ToolError("behaviour generation produced nothing:\n" + out[-2000:])
    return behs


REJECTED = {"Stale", "HandedBack", "ParentNotCommitted", "NotEnough", "Disabled", "Incomplete", "NotAncestor",
            "Poisoned"}


def score(beh, focus):
    """Selection heuristic only (never an oracle): how many features relevant to the focus a behaviour has."""
    if focus == "sync":
        # many successful commits, runs of commits without a rollback in between (segment roll-over, pruning),
        # rollbacks after several commits, few pure Close/Reopen steps
        sc, streak = 0, 0
        for s in beh:
            a, ok = s["a"], s.get("res", "Ok") == "Ok"
            if a in ("Commit", "TryCommit", "OverlayCommit", "OverlayTryCommit") and ok:
                streak += 1
                sc += 2 + 2 * min(streak - 1, 3)
            elif a == "Rollback" and ok:
                sc += 2 + streak
                streak = 0
            elif a == "Reopen":
                sc += 0.2
        return sc
    if focus == "reopen":
        # commits, then a reopen, then rollbacks / commits that depend on what the reopen reloaded
        sc, commits, reopened_after = 0, 0, False
        for s in beh:
            a, ok = s["a"], s.get("res", "Ok") == "Ok"
            if a in ("Commit", "TryCommit", "OverlayCommit", "OverlayTryCommit") and ok:
                commits += 1
                sc += 1 + (2 if reopened_after else 0)
            elif a == "Reopen":
                if commits:
                    reopened_after = True
                    sc += 1
            elif a == "Rollback" and ok:
                sc += 6 if reopened_after else 1
                commits = max(0, commits - s.get("n", 1))
        return sc
    sc = 0
    fin_w, ovl_w, sess_chain = {}, {}, {}
    committed_keys = set()
    rejected_ovls = set()
    for s in beh:
        a = s["a"]
        if a == "Begin" and s.get("chain") and rejected_ovls:
            # a session is attempted on descendants after an overlay commit was rejected (does the rejected
            # overlay count as committed for its children?)
            sc += 12
        if a == "Begin" and s.get("res") == "Ok":
            sess_chain[s["s"]] = list(s.get("chain") or [])
            if s.get("chain"):
                sc += 2
                if any(v == "Nil" and k in committed_keys for o in s["chain"] for k, v in ovl_w.get(o, {}).items()):
                    sc += 4          # a session on top of an overlay that deletes a committed key
        elif a == "Finish":
            fin_w[s["f"]] = (s["w"], sess_chain.get(s["s"], []))
            if sess_chain.get(s["s"]):
                sc += 3
        elif a == "IntoOverlay":
            w, chain = fin_w.get(s["f"], ({}, []))
            ovl_w[s["o"]] = w
            sc += 1
            if any(v == "Nil" and k in committed_keys for k, v in w.items()):
                sc += 2
        elif a in ("Commit", "TryCommit") and s.get("res") == "Ok":
            w, _ = fin_w.get(s["f"], ({}, []))
            for k, v in w.items():
                if v not in ("NoCh", "Nil"):
                    committed_keys.add(k)
                elif v == "Nil":
                    committed_keys.discard(k)
            sc += 1
        elif a in ("OverlayCommit", "OverlayTryCommit"):
            sc += 3 if s.get("res") == "Ok" else 2
            if s.get("res") in ("Stale", "ParentNotCommitted"):
                rejected_ovls.add(s["o"])
            if s.get("res") == "Ok":
                for k, v in ovl_w.get(s["o"], {}).items():
                    if v not in ("NoCh", "Nil"):
                        committed_keys.add(k)
                    elif v == "Nil":
                        committed_keys.discard(k)
        elif a == "Rollback" and s.get("res") == "Ok":
            sc += 2
        if s.get("res") in REJECTED:
            sc += 1
    return sc


def interesting(beh, focus):
    names = [s["a"] for s in beh]
    commits = sum(1 for s in beh if s["a"] in ("Commit", "TryCommit", "OverlayCommit", "OverlayTryCommit")
                  and s.get("res") == "Ok")
    if focus == "rollback":
        return commits >= 2 and any(s["a"] == "Rollback" and s.get("res") == "Ok" for s in beh)
    if focus == "reopen":
        return commits >= 1 and "Reopen" in names
    if focus == "overlay":
        return any(s["a"] in ("OverlayCommit", "OverlayTryCommit") for s in beh) or \
            any(s["a"] == "Begin" and s.get("chain") for s in beh)
    if focus == "rejected":
        return any(s.get("res") in REJECTED for s in beh) and commits >= 1
    return commits >= 1


# ----------------------------------------------------------------------------------------------
# concretisations
# ----------------------------------------------------------------------------------------------
VTABLES = {
    "tiny": {"v1": "tiny", "v2": "small", "v3": "empty"},
    "edge": {"v1": "inline-max", "v2": "overflow-min", "v3": "tiny"},
    "ovf": {"v1": "two-page", "v2": "tiny", "v3": "one-page"},
    "empty": {"v1": "empty", "v2": "tiny", "v3": "small"},
    "empty2": {"v1": "tiny", "v2": "empty", "v3": "small"},
    "big": {"v1": "cell-max", "v2": "indirect", "v3": "tiny"},
    "huge": {"v1": "huge", "v2": "overflow-min", "v3": "empty"},
    # mixed groups: one member in eight carries an overflow value, the others are small (so that
    # leaves hold several cells of both kinds and merge / split with overflow cells inside)
    "mixed": {"v1": "two-page|small", "v2": "small", "v3": "tiny"},
    "mixed2": {"v1": "overflow-min|tiny", "v2": "tiny|one-page", "v3": "small"},
}

EMBEDDINGS_QUICK = ["top", "tail", "deep(5)", "deep(11)", "spread(6)", "spread(64)", "scatter", "deep(250)",
                    "top:z", "top:o", "deep(6):z", "spread(7):z", "deep(12):o"]
EMBEDDINGS_ALL = ["top", "tail", "scatter", "ctop", "ctop:z"] + ["deep(%d)" % p for p in
                                               (0, 1, 5, 6, 7, 11, 12, 13, 17, 18, 19, 59, 60, 61, 125, 126, 127,
                                                200, 245, 250)] + \
                 ["spread(%d)" % s for s in (6, 7, 13, 64)] + \
                 ["top:z", "top:o", "tail:z", "deep(5):z", "deep(6):z", "deep(7):o", "deep(12):z", "deep(60):o",
                  "spread(6):z", "spread(7):o", "spread(64):z"]

STORE_CFGS = [
    dict(),
    dict(commit_concurrency=2, warm_up=True),
    dict(commit_concurrency=3, page_cache_size=1, leaf_cache_size=1, page_cache_upper_levels=0, io_workers=1),
    dict(commit_concurrency=7, hashtable_buckets=512, prepopulate=True, page_cache_upper_levels=1),
    dict(commit_concurrency=64, warm_up=True, hasher="sha2", page_cache_upper_levels=3),
    dict(commit_concurrency=1, hasher="sha2", leaf_cache_size=1, hashtable_buckets=64000),
]


# C13: a pairwise-covering sample of the option space (commit workers, warm-up, cache sizes, I/O workers, table size,
# upper-level caching, pre-population, hasher is fixed per matrix half because roots of different hashers differ)
CONFIG_MATRIX = [
    dict(commit_concurrency=1, warm_up=False, page_cache_size=256, leaf_cache_size=256, page_cache_upper_levels=2, io_workers=3, hashtable_buckets=4096),
    dict(commit_concurrency=2, warm_up=True, page_cache_size=1, leaf_cache_size=1, page_cache_upper_levels=0, io_workers=1, hashtable_buckets=64000),
    dict(commit_concurrency=3, warm_up=False, page_cache_size=1, leaf_cache_size=256, page_cache_upper_levels=3, io_workers=1, hashtable_buckets=4096, prepopulate=True),
    dict(commit_concurrency=7, warm_up=True, page_cache_size=256, leaf_cache_size=1, page_cache_upper_levels=1, io_workers=3, hashtable_buckets=2048, prepopulate=True),
    dict(commit_concurrency=64, warm_up=True, page_cache_size=2, leaf_cache_size=2, page_cache_upper_levels=2, io_workers=2, hashtable_buckets=64000),
    dict(commit_concurrency=16, warm_up=False, page_cache_size=256, leaf_cache_size=256, page_cache_upper_levels=0, io_workers=3, hashtable_buckets=8192, prepopulate=True),
    # hash tables barely larger than the number of pages (long probe chains, tombstones on them) with cold page caches
    dict(commit_concurrency=1, warm_up=False, page_cache_size=1, leaf_cache_size=1, page_cache_upper_levels=0, io_workers=1, hashtable_buckets="tiny"),
    dict(commit_concurrency=4, warm_up=True, page_cache_size=1, leaf_cache_size=2, page_cache_upper_levels=0, io_workers=2, hashtable_buckets="tiny"),
]


def concretise(beh, consts, rng, *, f=None, emb=None, vt=None, store=None, segment_size=None):
    keys = sorted(consts["Keys"])
    vals = sorted(consts["Vals"])
    f = f if f is not None else rng.choice([1, 1, 3, 25])
    emb = emb or rng.choice(EMBEDDINGS_QUICK)
    vt = vt or rng.choice(["tiny", "tiny", "edge", "ovf", "empty"])
    # keep one script below ~100 MB of values: 300 KiB values ("huge") only in small groups, 64 KiB ones ("big") in
    # medium groups (a full write of 3 x 400 huge members would be 360 MB and minutes per step under load)
    if vt == "huge":
        f = min(f, 25)
    elif vt == "big":
        f = min(f, 60)
    store = dict(store if store is not None else rng.choice(STORE_CFGS))
    store["rollback"] = bool(consts["RollbackOn"])
    store["max_rollback_log_len"] = int(consts["MaxLog"])
    store["seed"] = rng.randrange(1 << 30)
    if segment_size is not None:
        store["segment_size"] = segment_size
    conc = dict(keys=keys, vals=vals, emb=emb, f=f, vtable=VTABLES[vt], seed=rng.randrange(1 << 30), probes=2)
    return store, conc


def make_script(run, beh, store, conc):
    steps = []
    for s in beh:
        s = dict(s)
        if "chain" in s and s["chain"] is None:
            s["chain"] = []
        steps.append(s)
    return dict(run=run, cfg=store, conc=conc, steps=steps)


# ----------------------------------------------------------------------------------------------
# twins (differential attribution for C12 / C10)
# ----------------------------------------------------------------------------------------------
def twin_without_rejected(beh):
    """The same behaviour with every rejected / deferred attempt replaced by its specification
    meaning (a consumed handle is dropped, anything else vanishes).  By NomtApi!RejectedIsNoOp both
    behaviours must be indistinguishable afterwards."""
    out = []
    changed = False
    for s in beh:
        res = s.get("res")
        a = s["a"]
        if a in ("Commit", "TryCommit") and res in ("Stale", "Poisoned"):
            out.append({"a": "DropFinished", "f": s["f"]}); changed = True
        elif a in ("OverlayCommit", "OverlayTryCommit") and res in ("Stale", "ParentNotCommitted", "Poisoned"):
            out.append({"a": "DropOverlay", "o": s["o"]}); changed = True
        elif res in ("HandedBack", "NotEnough", "Disabled", "Incomplete", "NotAncestor"):
            changed = True
        else:
            out.append(dict(s))
    return out if changed else None


def twin_without_reopen(beh):
    """The same behaviour with every Close;Reopen pair replaced by what closing means for the handles the user
    holds (changesets and overlays are dropped; a Close is only legal without live sessions).  Overlay identifiers
    are not recycled without a Close, so later overlays are renumbered.  By NomtApi!ReopenTransparent both
    behaviours must be indistinguishable afterwards (validate the twin with a larger MaxOvl)."""
    out = []
    changed = False
    fins, ovls = set(), set()
    epoch_ovls = 0       # overlays allocated since the last (removed or kept) Close
    offset = 0
    i = 0
    def mo(o):
        return o + offset if o else o
    while i < len(beh):
        s = dict(beh[i])
        a = s["a"]
        if a == "Close" and i + 1 < len(beh) and beh[i + 1]["a"] == "Reopen":
            for f in sorted(fins):
                out.append({"a": "DropFinished", "f": f})
            for o in sorted(ovls):
                out.append({"a": "DropOverlay", "o": o + offset})
            fins, ovls = set(), set()
            offset += epoch_ovls
            epoch_ovls = 0
            changed = True
            i += 2
            continue
        if a == "Close":
            # an unpaired Close at the end of the behaviour
            fins, ovls = set(), set()
            offset, epoch_ovls = 0, 0
        if "o" in s:
            s["o"] = mo(s["o"])
        if s.get("chain"):
            s["chain"] = [mo(o) for o in s["chain"]]
        if a == "Finish":
            fins.add(s["f"])
        elif a == "DropFinished":
            fins.discard(s["f"])
        elif a in ("Commit", "TryCommit") and s.get("res") != "HandedBack":
            fins.discard(s["f"])
        elif a == "IntoOverlay":
            fins.discard(s["f"])
            ovls.add(beh[i]["o"])
            epoch_ovls = max(epoch_ovls, beh[i]["o"])
        elif a == "DropOverlay":
            ovls.discard(beh[i]["o"])
        elif a in ("OverlayCommit", "OverlayTryCommit") and s.get("res") != "HandedBack":
            ovls.discard(beh[i]["o"])
        out.append(s)
        i += 1
    return out if changed else None


def overlay_templates(keys):
    """A few hand-written overlay behaviours (legal NomtApi behaviours; ApiTrace validates them like the generated ones):
    a committed key is deleted / overwritten in an overlay and a session on top of that overlay touches its neighbours."""
    N = {k: "NoCh" for k in keys}
    out = []
    for a, b in [(keys[0], keys[1]), (keys[1], keys[0]), (keys[0], keys[2]), (keys[2], keys[1])]:
        for first, second in [("Nil", "v1"), ("v2", "Nil"), ("Nil", "Nil")]:
            beh = [dict(a="Begin", s=1, chain=[], res="Ok"), dict(a="Finish", s=1, f=1, w=dict(N, **{a: "v1", b: "v2"})),
                   dict(a="Commit", f=1, res="Ok"),
                   dict(a="Begin", s=1, chain=[], res="Ok"), dict(a="Finish", s=1, f=1, w=dict(N, **{a: first})),
                   dict(a="IntoOverlay", f=1, o=1),
                   dict(a="Begin", s=1, chain=[1], res="Ok"), dict(a="Finish", s=1, f=1, w=dict(N, **{b: second})),
                   dict(a="IntoOverlay", f=1, o=2),
                   dict(a="Begin", s=1, chain=[2, 1], res="Ok"), dict(a="Finish", s=1, f=1, w=dict(N, **{a: "v2"})),
                   dict(a="IntoOverlay", f=1, o=3),
                   dict(a="OverlayCommit", o=1, res="Ok"), dict(a="OverlayTryCommit", o=2, res="Ok"),
                   dict(a="Rollback", n=1, res="Ok"),
                   dict(a="Close"), dict(a="Reopen")]
            out.append(beh)
    return out


def cold_templates(keys):
    """Hand-written legal NomtApi behaviours for the configuration matrix (C13): whole groups are deleted (their merkle
    pages become tombstones on other pages' probe chains), the store is reopened (cold caches) and the surviving
    groups are read, proven and updated."""
    N = {k: "NoCh" for k in keys}
    out = []
    for order in (keys, keys[::-1], [keys[1], keys[0], keys[2]]):
        a, b, c = order
        beh = []
        def commit(w):
            beh.extend([dict(a="Begin", s=1, chain=[], res="Ok"), dict(a="Finish", s=1, f=1, w=dict(N, **w)), dict(a="Commit", f=1, res="Ok")])
        commit({k: "v1" for k in keys})
        commit({a: "Nil"})
        beh += [dict(a="Close"), dict(a="Reopen")]
        commit({b: "v2"})
        commit({c: "Nil", a: "v2"})
        beh += [dict(a="Close"), dict(a="Reopen")]
        commit({b: "Nil"})
        beh += [dict(a="Rollback", n=1, res="Ok"), dict(a="Close"), dict(a="Reopen"), dict(a="Begin", s=1, chain=[], res="Ok"),
                dict(a="DropSession", s=1)]
        out.append(beh)
    return out


def occupancy_templates(keys):
    """Hand-written legal NomtApi behaviours in which merkle pages are created in one overlay and emptied again in a
    descendant before either is committed (then both are committed in order), next to the same history through plain
    sessions: the hash-table occupancy must return to what the decoder counts (C19)."""
    N = {k: "NoCh" for k in keys}
    a, b, c = keys[0], keys[1], keys[2]
    out = []
    for second in ({a: "Nil"}, {a: "Nil", b: "v1"}, {a: "v2", b: "Nil"}):
        for pre in (None, {b: "v1"}, {a: "v2", c: "v1"}):
            beh = []
            if pre:
                beh += [dict(a="Begin", s=1, chain=[], res="Ok"), dict(a="Finish", s=1, f=1, w=dict(N, **pre)), dict(a="Commit", f=1, res="Ok")]
            beh += [dict(a="Begin", s=1, chain=[], res="Ok"), dict(a="Finish", s=1, f=1, w=dict(N, **{a: "v1", c: "v2"})),
                    dict(a="IntoOverlay", f=1, o=1),
                    dict(a="Begin", s=1, chain=[1], res="Ok"), dict(a="Finish", s=1, f=1, w=dict(N, **second)),
                    dict(a="IntoOverlay", f=1, o=2),
                    dict(a="Begin", s=1, chain=[2, 1], res="Ok"), dict(a="Finish", s=1, f=1, w=dict(N, **{c: "Nil"})),
                    dict(a="IntoOverlay", f=1, o=3),
                    dict(a="OverlayCommit", o=1, res="Ok"), dict(a="OverlayTryCommit", o=2, res="Ok"),
                    dict(a="OverlayCommit", o=3, res="Ok"),
                    dict(a="Begin", s=1, chain=[], res="Ok"), dict(a="Finish", s=1, f=1, w={k: "Nil" for k in keys}),
                    dict(a="Commit", f=1, res="Ok"),
                    dict(a="Close"), dict(a="Reopen")]
            out.append(beh)
    return out


def rejected_templates(keys):
    """Hand-written legal NomtApi behaviours in which an attempt is REJECTED in the middle of the commit of an overlay
    chain: a stale session changeset (blocking / non-blocking), a stale sibling overlay, a rollback that cannot be
    served, a refused begin.  By NomtApi!RejectedIsNoOp the rest of the chain commits as if nothing had happened
    (the twin without the attempt is generated by twin_without_rejected)."""
    N = {k: "NoCh" for k in keys}
    a, b, c = keys[0], keys[1], keys[2]
    out = []
    for attempt in ("Commit", "TryCommit", "OverlayCommit", "OverlayTryCommit", "Rollback", "Begin"):
        for second in ("OverlayCommit", "OverlayTryCommit"):
            beh = [dict(a="Begin", s=1, chain=[], res="Ok"), dict(a="Finish", s=1, f=1, w=dict(N, **{c: "v1"})), dict(a="Commit", f=1, res="Ok")]
            # the competitor, prepared on the same base as the chain
            beh += [dict(a="Begin", s=1, chain=[], res="Ok"), dict(a="Finish", s=1, f=1, w=dict(N, **{a: "v1"}))]
            if attempt.startswith("Overlay"):
                beh += [dict(a="IntoOverlay", f=1, o=1)]
                o1, o2, stale = 2, 3, 1
            else:
                o1, o2, stale = 1, 2, None
            fid = 1 if attempt.startswith("Overlay") else 2
            beh += [dict(a="Begin", s=1, chain=[], res="Ok"), dict(a="Finish", s=1, f=fid, w=dict(N, **{b: "v1"})),
                    dict(a="IntoOverlay", f=fid, o=o1),
                    dict(a="Begin", s=1, chain=[o1], res="Ok"), dict(a="Finish", s=1, f=fid, w=dict(N, **{b: "v2", c: "Nil"})),
                    dict(a="IntoOverlay", f=fid, o=o2),
                    dict(a="OverlayCommit", o=o1, res="Ok")]
            if attempt in ("Commit", "TryCommit"):
                beh += [dict(a=attempt, f=1, res="Stale")]
            elif attempt.startswith("Overlay"):
                beh += [dict(a=attempt, o=stale, res="Stale")]
            elif attempt == "Rollback":
                beh += [dict(a="Rollback", n=3, res="NotEnough")]
            else:
                beh += [dict(a="Begin", s=0, chain=[o2, o2], res="NotAncestor")]
            beh += [dict(a=second, o=o2, res="Ok"), dict(a="Rollback", n=1, res="Ok"), dict(a="Close"), dict(a="Reopen")]
            out.append(beh)
    # a non-blocking commit DEFERRED by a live session (the changeset / overlay is handed back untouched): the other
    # session goes away, the handed-back handle is committed after all, and the commit is rolled back - the deferred
    # attempt must not have cost the handle anything (its values, its root, its rollback delta)
    for kind in ("session", "overlay"):
        for later in ("blocking", "nonblocking"):
            for nattempts in (1, 2):
                beh = [dict(a="Begin", s=1, chain=[], res="Ok"), dict(a="Finish", s=1, f=1, w=dict(N, **{c: "v1", a: "v2"})), dict(a="Commit", f=1, res="Ok")]
                beh += [dict(a="Begin", s=1, chain=[], res="Ok"), dict(a="Finish", s=1, f=1, w=dict(N, **{a: "v1", c: "Nil"}))]
                if kind == "overlay":
                    beh += [dict(a="IntoOverlay", f=1, o=1)]
                beh += [dict(a="Begin", s=1, chain=[], res="Ok")]                      # the session that is in the way (id 1 is free again)
                for _ in range(nattempts):
                    beh += [dict(a="TryCommit", f=1, res="HandedBack") if kind == "session" else dict(a="OverlayTryCommit", o=1, res="HandedBack")]
                beh += [dict(a="DropSession", s=1)]
                if kind == "session":
                    beh += [dict(a="Commit" if later == "blocking" else "TryCommit", f=1, res="Ok")]
                else:
                    beh += [dict(a="OverlayCommit" if later == "blocking" else "OverlayTryCommit", o=1, res="Ok")]
                beh += [dict(a="Rollback", n=1, res="Ok"),
                        dict(a="Begin", s=1, chain=[], res="Ok"), dict(a="Finish", s=1, f=1, w=dict(N, **{b: "v1"})), dict(a="Commit", f=1, res="Ok"),
                        dict(a="Rollback", n=1, res="Ok"), dict(a="Close"), dict(a="Reopen")]
                out.append(beh)
    return out


def rollback_templates(keys, maxlog):
    """Hand-written legal NomtApi behaviours around rollbacks of overlay chains: a committed (or absent) key is
    deleted / overwritten in overlay o1, written again in o2 on top of it, both are committed, then rolled back one
    commit at a time.  The priors recorded for o2's delta must come from o1, not from the store.
    Returns (behaviour, twin) pairs; the twin makes the same two commits directly (C11: an overlay chain behaves
    exactly like the commits it stands for)."""
    N = {k: "NoCh" for k in keys}
    out = []
    a, b = keys[0], keys[1]
    for base in ("v1", None):
        for w1 in ("Nil", "v2"):
            for w2 in ("v1", "Nil", "v2"):
                for flavour in (0, 1):
                    pre = []
                    if base:
                        pre = [dict(a="Begin", s=1, chain=[], res="Ok"), dict(a="Finish", s=1, f=1, w=dict(N, **{a: base, b: "v1"})),
                               dict(a="Commit", f=1, res="Ok")]
                    post = [dict(a="Rollback", n=1, res="Ok")]
                    if maxlog >= 2:
                        post += [dict(a="Rollback", n=1, res="Ok")]
                    post += [dict(a="Close"), dict(a="Reopen")]
                    beh = pre + [dict(a="Begin", s=1, chain=[], res="Ok"), dict(a="Finish", s=1, f=1, w=dict(N, **{a: w1})),
                                 dict(a="IntoOverlay", f=1, o=1),
                                 dict(a="Begin", s=1, chain=[1], res="Ok"), dict(a="Finish", s=1, f=1, w=dict(N, **{a: w2, b: "v2"})),
                                 dict(a="IntoOverlay", f=1, o=2),
                                 dict(a="OverlayCommit" if flavour == 0 else "OverlayTryCommit", o=1, res="Ok"),
                                 dict(a="OverlayTryCommit" if flavour == 0 else "OverlayCommit", o=2, res="Ok")] + post
                    twin = pre + [dict(a="Begin", s=1, chain=[], res="Ok"), dict(a="Finish", s=1, f=1, w=dict(N, **{a: w1})),
                                  dict(a="Commit" if flavour == 0 else "TryCommit", f=1, res="Ok"),
                                  dict(a="Begin", s=1, chain=[], res="Ok"), dict(a="Finish", s=1, f=1, w=dict(N, **{a: w2, b: "v2"})),
                                  dict(a="TryCommit" if flavour == 0 else "Commit", f=1, res="Ok")] + post
                    out.append((beh, twin))
    return out


# ----------------------------------------------------------------------------------------------
# replay + validation
# ----------------------------------------------------------------------------------------------
def replay(scripts, tag, timeout=3000):
    """Run the harness over the scripts (sharded over cores); returns list of per-run record lists."""
    import subprocess
    nshards = max(1, min(C.workers(14), len(scripts)))
    scratch = C.scratch_dir("replay-" + tag)
    shards = [[] for _ in range(nshards)]
    for i, sc in enumerate(scripts):
        shards[i % nshards].append(sc)
    procs = []
    for i, sh in enumerate(shards):
        sp = os.path.join(scratch, "scripts%d.ndjson" % i)
        with open(sp, "w") as f:
            for sc in sh:
                f.write(json.dumps(sc) + "\n")
        op = os.path.join(scratch, "trace%d.ndjson" % i)
        p = C.Proc([C.NVH, "replay", sp, op, os.path.join(scratch, "db%d" % i)], os.path.join(scratch, "log%d" % i))
        procs.append((p, op))
    runs = {}
    hangs = []
    for p, op in procs:
        try:
            so, se = p.communicate(timeout=timeout)
        except subprocess.TimeoutExpired:
            p.kill()
            so, se = p.communicate()
            raise C.ToolError("harness replay timed out")
        if p.returncode == 3:
            hp = os.path.splitext(op)[0] + ".hang"
            what = open(hp).read() if os.path.exists(hp) else se[-500:]
            hangs.append(what)
        elif p.returncode != 0:
            raise C.ToolError("harness replay failed rc=%s: %s" % (p.returncode, se[-2000:]))
        if os.path.exists(op):
            with open(op) as f:
                for line in f:
                    line = line.strip()
                    if not line:
                        continue
                    rec = json.loads(line)
                    runs.setdefault(rec["run"], []).append(rec)
    import shutil
    shutil.rmtree(scratch, ignore_errors=True)
    return runs, hangs


def trace_cfg(consts, tag, relax=()):
    cfg = os.path.join(C.OUT, "ApiTrace_%s.cfg" % tag)
    cc = dict(consts)
    cc["MaxSeqn"] = 1000000
    cc["Relax"] = "{" + ", ".join('"%s"' % r for r in relax) + "}"
    C.write_cfg(cfg, "TraceSpec", cc, postcondition="TraceAccepted")
    return cfg


def write_trace(path, run_ids, runs):
    index = []  # record number (1-based) -> run id
    with open(path, "w") as f:
        for r in run_ids:
            for rec in runs[r]:
                f.write(json.dumps(rec) + "\n")
                index.append(r)
    return index


CLASSES = ["root", "proof", "wit", "dec", "alloc", "kv", "seqn", "poison", "cont"]


def validate_runs(run_ids, runs, consts, tag, max_rejections=25):
    """Validate all runs; a rejected run is cut out and the rest re-validated so nothing stays
    unexamined.  Returns (accepted_run_ids, rejections[list of dict(run, index_in_run, record, cls)])."""
    remaining = list(run_ids)
    rejections = []
    accepted = []
    tdir = os.path.join(C.OUT, "traces")
    os.makedirs(tdir, exist_ok=True)
    while remaining:
        tp = os.path.join(tdir, "trace_%s.ndjson" % tag)
        index = write_trace(tp, remaining, runs)
        if not index:
            break
        v = C.validate_trace(tp, trace_cfg(consts, tag))
        if v["accepted"]:
            accepted.extend(remaining)
            break
        d = v["rejected_at"]
        bad_run = index[d - 1]
        # position inside the run
        first = index.index(bad_run)
        pos = d - 1 - first
        # attribute: which classes of check fail at this record?  validate this run alone: with every class relaxed
        # (rejected anyway -> the outcome itself is not a NomtApi behaviour), then with all but one class relaxed
        single = os.path.join(tdir, "trace_%s_single.ndjson" % tag)
        write_trace(single, [bad_run], runs)

        def failing_classes(at, already=()):
            allc = tuple(CLASSES)
            vv = C.validate_trace(single, trace_cfg(consts, tag + "_relax", relax=allc))
            if not (vv["accepted"] or vv["rejected_at"] > at + 1):
                return ["outcome"]
            out = []
            for c in CLASSES:
                if c in already:
                    continue
                rel = tuple(x for x in CLASSES if x != c)
                vv = C.validate_trace(single, trace_cfg(consts, tag + "_relax", relax=rel))
                if not vv["accepted"] and vv["rejected_at"] == at + 1:
                    out.append(c)
            return out or ["outcome"]

        classes = failing_classes(pos)
        rejections.append(dict(run=bad_run, pos=pos, record=runs[bad_run][pos], cls=classes[0], classes=classes))
        # the rest of this run: keep validating with the failing classes relaxed, so that a defect that shows in
        # several observables at different steps is seen under each of them
        relaxed = list(classes)
        while "outcome" not in relaxed and len(relaxed) < 6:
            vv = C.validate_trace(single, trace_cfg(consts, tag + "_relax", relax=tuple(relaxed)))
            if vv["accepted"]:
                break
            pos2 = vv["rejected_at"] - 1
            cl2 = failing_classes(pos2, already=tuple(relaxed))
            rejections.append(dict(run=bad_run, pos=pos2, record=runs[bad_run][pos2], cls=cl2[0], classes=cl2))
            if "outcome" in cl2:
                break
            relaxed.extend(cl2)
        # everything before the bad run was accepted in this pass
        cut = remaining.index(bad_run)
        accepted.extend(remaining[:cut])
        remaining = remaining[cut + 1:]
        if len(rejections) >= max_rejections:
            break
    return accepted, rejections


CLASS_PROP = {"root": "C02", "proof": "C05", "wit": "C06", "dec": "C16", "alloc": "C19"}


def attribute_all(rej, script_steps):
    """Every property a rejection contradicts: one per failing observable class that belongs to a property of its own,
    plus the property of the call itself when the remaining classes (values, seqn, outcome ...) fail."""
    props = set()
    rest = []
    for c in rej.get("classes") or [rej["cls"]]:
        if c in CLASS_PROP:
            props.add(CLASS_PROP[c])
        else:
            rest.append(c)
    if rest or not props:
        r2 = dict(rej, cls=rest[0] if rest else rej["cls"])
        props.add(attribute(r2, script_steps))
    return props


def attribute(rej, script_steps):
    """Map a rejection to the property whose statement it contradicts (DESIGN section 5)."""
    rec = rej["record"]
    cls = rej["cls"]
    ev = rec.get("ev")
    res = str(rec.get("res", ""))
    if res == "PANIC" or res.startswith("Err:") or res.startswith("HarnessErr"):
        # a call that the specification says succeeds (or is refused cleanly) blew up
        pass
    if ev == "Image":
        return "C03" if rec.get("kind") == "crash" else "C04"
    if ev == "Fault":
        return "C14"
    if cls == "dec":
        return "C16"
    if cls == "alloc":
        return "C19"
    if cls == "root":
        return "C02"
    if cls == "proof":
        return "C05"
    if cls == "wit":
        return "C06"
    if ev == "Rollback":
        return "C09"
    if ev == "Reopen":
        return "C10"
    chain = rec.get("chain") or []
    if ev in ("OverlayCommit", "OverlayTryCommit", "IntoOverlay", "DropOverlay") or (ev == "Begin" and chain):
        return "C11"
    if ev == "Finish":
        # a session on an overlay chain?
        for s in script_steps[: rej["pos"]][::-1]:
            if s["a"] == "Begin" and s.get("s") == rec.get("s"):
                return "C11" if s.get("chain") else "C01"
    if ev in ("Commit", "TryCommit") and res in REJECTED:
        return "C12"
    if ev in ("Commit", "TryCommit") and res not in ("Ok",):
        return "C12" if res in REJECTED else "C01"
    return "C01"
