"""C15 (concurrent sessions / writers), C20 (directory lock): NomtConc.tla is model-checked; the harness
runs seeded multi-threaded histories (records ordered by linearisation points taken inside the store while
the access lock is held) validated by ApiTrace, and multi-process lock scenarios validated by LockTrace."""
import json, os, random, re, subprocess, time, shutil
from . import common as C, api, findings

CONC_TLC = [
    # (threads, maxops, sessPerThread)
    (["t1", "t2"], 4, 1),
    (["t1", "t2", "t3"], 2, 1),
]


def mc_conc(tag, threads, maxops, spt, drop=(), openers=("o1", "o2"), timeout=1500):
    cfg = os.path.join(C.OUT, "NomtConc_%s.cfg" % tag)
    with open(cfg, "w") as f:
        f.write("SPECIFICATION Spec\nCONSTANTS\n")
        f.write("  Threads = {%s}\n  MaxOps = %d\n  MaxSessPerThread = %d\n  RbPool = 2\n  WithRollback = TRUE\n" %
                (", ".join('"%s"' % t for t in threads), maxops, spt))
        f.write("  Openers = {%s}\n  Drop = {%s}\n" % (", ".join('"%s"' % o for o in openers), ", ".join('"%s"' % d for d in drop)))
        f.write("INVARIANTS SnapshotReads Exclusion WritersSerialize NoLostCommit AtMostOneHandle NobodyWritesUnlocked DroppedMeansFree\n")
    t0 = time.time()
    rc, out = C.run_tlc("NomtConc.tla", cfg, tag="conc" + tag, timeout=timeout, nworkers=min(10, C.workers()))
    states, gen = C.tlc_stats(out)
    if rc == 124:
        raise C.ToolError("TLC timed out on NomtConc %s" % tag)
    ok = rc == 0 and "No error has been found" in out
    return dict(states=states, transitions=gen, ok=ok, deadlock="Deadlock reached" in out, output=out, wall=time.time() - t0)


def design_level(pid, tier, violations):
    mcs, states, trans = [], 0, 0
    for i, (threads, maxops, spt) in enumerate(CONC_TLC if tier == "thorough" else CONC_TLC[:1] + CONC_TLC[1:2]):
        r = mc_conc("%s_%d" % (pid, i), threads, maxops, spt, openers=("o1", "o2") if i == 0 else ("o1",))
        mcs.append(dict(threads=len(threads), maxops=maxops, states=r["states"], transitions=r["transitions"], ok=r["ok"],
                        deadlock=r["deadlock"], wall_s=round(r["wall"], 1)))
        states += r["states"]; trans += r["transitions"]
        C.log("[%s] TLC NomtConc %d threads x %d ops: %d states, ok=%s (%.0fs)" % (pid, len(threads), maxops, r["states"], r["ok"], r["wall"]))
        if not r["ok"]:
            p = C.write_replay(pid, "design-conc-%d" % i, dict(kind="tlc-counterexample", output=r["output"][-20000:]))
            violations.append(dict(prop=pid, replay=p, what="NomtConc violated at design level (deadlock=%s)" % r["deadlock"]))
    # guards must be load-bearing
    mut = {}
    for g in (["writer-excludes-readers", "root-check"] if pid == "C15" else ["unlock-after-drain", "join-abandoned-worker"]):
        m = mc_conc("%s_mut_%s" % (pid, g.replace("-", "")), ["t1", "t2"], 3, 1, drop=(g,), openers=("o1", "o2"))
        mut[g] = not m["ok"]
    dead = [g for g, c in mut.items() if not c]
    if dead:
        raise C.ToolError("vacuous guard(s) in NomtConc: %s" % dead)
    return mcs, states, trans, mut


def run_nvh(sub, scripts, tag, extra_args=(), timeout=3000):
    nshards = max(1, min(6, len(scripts)))
    scratch = C.scratch_dir("%s-%s" % (sub, tag))
    procs = []
    for i in range(nshards):
        sp = os.path.join(scratch, "s%d.ndjson" % i)
        with open(sp, "w") as f:
            for sc in scripts[i::nshards]:
                f.write(json.dumps(sc) + "\n")
        op = os.path.join(scratch, "o%d.ndjson" % i)
        procs.append((C.Proc([C.NVH, sub, sp, op, os.path.join(scratch, "db%d" % i)], os.path.join(scratch, "log%d" % i)), op))
    runs, hangs = {}, []
    for p, op in procs:
        try:
            so, se = p.communicate(timeout=timeout)
        except subprocess.TimeoutExpired:
            p.kill()
            raise C.ToolError("nvh %s timed out" % sub)
        if p.returncode == 3:
            hp = os.path.splitext(op)[0] + ".hang"
            hangs.append(open(hp).read() if os.path.exists(hp) else se[-300:])
        elif p.returncode != 0:
            raise C.ToolError("nvh %s failed rc=%s: %s" % (sub, p.returncode, se[-2000:]))
        if os.path.exists(op):
            for line in open(op):
                if line.strip():
                    rec = json.loads(line)
                    runs.setdefault(rec["run"], []).append(rec)
    shutil.rmtree(scratch, ignore_errors=True)
    return runs, hangs


ASSUME15 = [
    "records are ordered by sequence numbers taken inside the store while the access lock is held (hook points 'lin') or, for "
    "finish/drop, when the call starts; the global per-step observation is not checked in concurrent runs (only session views, "
    "outcomes, roots, witnesses and the final quiescent state)",
    "each driver thread holds at most one session and never waits for the exclusive lock while holding one (self-deadlock is a "
    "caller error); real thread schedules are sampled (seeded yield points), not enumerated",
]


def run_c15(pid, tier, seed):
    t0 = time.time()
    rng = random.Random(seed * 6151 + 15)
    violations, known, notes = [], [], []
    mcs, states, trans, mut = design_level(pid, tier, violations)
    nruns = 160 if tier == "quick" else 1600
    scripts, by_threads = [], {}
    for i in range(nruns):
        threads = rng.choice([2, 3, 4, 6, 6, 8])
        maxlog = rng.choice([1, 2, 3])
        store = dict(rng.choice(api.STORE_CFGS))
        store.update(rollback=True, max_rollback_log_len=maxlog, seed=rng.randrange(1 << 30), hashtable_buckets=4096)
        conc = dict(keys=["k1", "k2", "k3"], vals=["v1", "v2"], emb=rng.choice(api.EMBEDDINGS_QUICK), f=rng.choice([1, 3, 25]),
                    vtable=api.VTABLES[rng.choice(["tiny", "edge", "mixed"])], seed=rng.randrange(1 << 30), probes=2)
        sc = dict(run=i + 1, cfg=store, conc=conc, threads=threads, ops=rng.choice([10, 20, 30]), seed=rng.randrange(1 << 30),
                  yields=rng.random() < 0.7, max_ovl=12)
        scripts.append(sc)
        by_threads.setdefault((threads, maxlog), []).append(i + 1)
    # pool pressure: many threads, each with one session, over the smallest worker pools (one commit worker, the two
    # rollback workers) with warm-up and rollback on: every session owns a task in both pools
    for j in range(16 if tier == "quick" else 240):
        threads = rng.choice([6, 8, 8, 12])
        maxlog = rng.choice([1, 2])
        store = dict(commit_concurrency=rng.choice([1, 1, 2]), warm_up=True, rollback=True, max_rollback_log_len=maxlog,
                     seed=rng.randrange(1 << 30), hashtable_buckets=4096)
        conc = dict(keys=["k1", "k2", "k3"], vals=["v1", "v2"], emb=rng.choice(["tail", "top", "scatter"]), f=3,
                    vtable=api.VTABLES[rng.choice(["tiny", "mixed"])], seed=rng.randrange(1 << 30), probes=2)
        sc = dict(run=nruns + j + 1, cfg=store, conc=conc, threads=threads, ops=30, seed=rng.randrange(1 << 30), yields=True, max_ovl=12)
        scripts.append(sc)
        by_threads.setdefault((threads, maxlog), []).append(nruns + j + 1)
    runs, hangs = run_nvh("conc", scripts, pid)
    for h in hangs:
        fid = findings.match_hang(pid, h)
        if fid:
            known.append(fid); continue
        p = C.write_replay(pid, "hang-%d" % len(violations), dict(kind="hang", what=h))
        violations.append(dict(prop=pid, replay=p, what="a thread did not return (deadlock?): " + h[:200]))
    by_run = {sc["run"]: sc for sc in scripts}
    accepted, rejections = 0, []
    for (threads, maxlog), ids in sorted(by_threads.items()):
        consts = api.gen_constants(maxlog=maxlog, maxovl=12, maxfin=threads, maxsess=threads)
        ids = [r for r in ids if r in runs]
        acc, rej = validate_conc(ids, runs, consts, "%s_t%d_m%d" % (pid, threads, maxlog))
        accepted += len(acc)
        rejections.extend(rej)
    for rej in rejections:
        rec = rej["record"]
        p = C.write_replay(pid, "run%d" % rej["run"], dict(kind="conc-trace", property=pid, script=by_run[rej["run"]],
                                                            rejected_record=rec, failing_class=rej["cls"], tier=tier, seed=seed,
                                                            log=runs[rej["run"]][max(0, rej["pos"] - 12): rej["pos"] + 1]))
        violations.append(dict(prop=pid, replay=p, what="concurrent history not explained by NomtApi at %s (t=%s res=%s class=%s)" %
                                                        (rec.get("ev"), rec.get("t"), rec.get("res"), rej["cls"])))
    nrec = sum(len(v) for v in runs.values())
    outcomes = {}
    for rs in runs.values():
        for r in rs:
            k = "%s/%s" % (r.get("ev"), r.get("res", ""))
            outcomes[k] = outcomes.get(k, 0) + 1
    for v in violations:
        C.log("VIOLATION property=%s replay=%s" % (v["prop"], v["replay"])); C.log("  " + v["what"])
    for k in known:
        C.log("KNOWN-FINDING: property=%s %s" % (k["property"], k["what"]))
    cov = dict(states=states, transitions=trans, traces_validated_against_impl=accepted,
               samples=[dict(script=scripts[0], first_records=[{k: v for k, v in r.items() if k not in ("view",)} for r in runs.get(1, [])[:12]])],
               evaluations=nrec, distinct_nontrivial=len(runs),
               rule="one case = one seeded multi-threaded run (2-6 threads, 10-30 calls each: begin/read/finish/drop, blocking and "
                    "non-blocking commits, rollbacks); distinct by seed; non-trivial = at least two threads made calls",
               exhaustive=False, model_checking=mcs, guard_mutants_caught=mut, outcome_histogram=outcomes,
               traces_rejected=len(rejections), known_findings=sorted({k["id"] for k in known}))
    C.write_evidence(pid, tier, seed, "model_checking", cov, time.time() - t0, ASSUME15, violations=len(violations))
    return 1 if violations else 0


def validate_conc(run_ids, runs, consts, tag):
    """like api.validate_runs but with the relaxations of concurrent traces"""
    remaining = list(run_ids)
    accepted, rejections = [], []
    tdir = os.path.join(C.OUT, "traces")
    os.makedirs(tdir, exist_ok=True)
    while remaining:
        tp = os.path.join(tdir, "conc_%s.ndjson" % tag)
        index = api.write_trace(tp, remaining, runs)
        if not index:
            break
        v = C.validate_trace(tp, api.trace_cfg(consts, tag, relax=("st", "conc")))
        if v["accepted"]:
            accepted.extend(remaining)
            break
        d = v["rejected_at"]
        bad = index[d - 1]
        pos = d - 1 - index.index(bad)
        cls = "outcome"
        single = os.path.join(tdir, "conc_%s_single.ndjson" % tag)
        api.write_trace(single, [bad], runs)
        for c in ("root", "proof", "wit", "kv"):
            vv = C.validate_trace(single, api.trace_cfg(consts, tag + "_relax", relax=("st", "conc", c)))
            if vv["accepted"] or vv["rejected_at"] > pos + 1:
                cls = c
                break
        rejections.append(dict(run=bad, pos=pos, record=runs[bad][pos], cls=cls))
        cut = remaining.index(bad)
        accepted.extend(remaining[:cut])
        remaining = remaining[cut + 1:]
        if len(rejections) >= 20:
            break
    return accepted, rejections


def run_c20(pid, tier, seed):
    t0 = time.time()
    violations, known = [], []
    mcs, states, trans, mut = design_level(pid, tier, violations)
    n = 12 if tier == "quick" else 400
    scratch = C.scratch_dir("lock-" + pid)
    outp = os.path.join(scratch, "lock.ndjson")
    nproc = 4 if tier == "quick" else 12
    procs = []
    for i in range(nproc):
        op = os.path.join(scratch, "lock%d.ndjson" % i)
        procs.append((C.Proc([C.NVH, "lock", "run", str((n + nproc - 1) // nproc), str(seed * 100 + i), op,
                              os.path.join(scratch, "db%d" % i)], os.path.join(scratch, "log%d" % i)), op))
    recs = []
    for p, op in procs:
        try:
            so, se = p.communicate(timeout=1800)
        except subprocess.TimeoutExpired:
            p.kill(); raise C.ToolError("nvh lock timed out")
        if p.returncode == 3:
            pth = C.write_replay(pid, "hang", dict(kind="hang", what=se[-300:]))
            violations.append(dict(prop=pid, replay=pth, what="open/close did not return"))
        elif p.returncode != 0:
            raise C.ToolError("nvh lock failed rc=%s: %s" % (p.returncode, se[-1500:]))
        if os.path.exists(op):
            recs.extend(json.loads(x) for x in open(op) if x.strip())
    shutil.rmtree(scratch, ignore_errors=True)
    tdir = os.path.join(C.OUT, "traces"); os.makedirs(tdir, exist_ok=True)
    tp = os.path.join(tdir, "lock_%s.ndjson" % pid)
    with open(tp, "w") as f:
        for r in recs:
            f.write(json.dumps(r) + "\n")
    cfg = os.path.join(C.OUT, "LockTrace_%s.cfg" % pid)
    with open(cfg, "w") as f:
        f.write("SPECIFICATION Spec\nPOSTCONDITION Finished\nCHECK_DEADLOCK FALSE\n")
    rc, out = C.run_tlc("LockTrace.tla", cfg, tag="locktrace", nworkers=1, timeout=900, heap="2g", env_extra={"TRACE": tp},
                        java_opts="-Xss1g -Dtlc2.tool.queue.IStateQueue=StateDeque")
    if '"TRACE-COMPLETE"' not in out:
        raise C.ToolError("LockTrace did not complete:\n" + out[-2000:])
    bad = [int(m.group(1)) - 1 for m in re.finditer(r'<<"BAD-RECORD", (\d+),', out)]
    for i in bad[:10]:
        p = C.write_replay(pid, "rec%d" % i, dict(kind="lock-trace", property=pid, record=recs[i], context=recs[max(0, i - 8): i + 2]))
        violations.append(dict(prop=pid, replay=p, what="lock log record not allowed by NomtConc: %s" % json.dumps(recs[i])[:200]))
    for v in violations:
        C.log("VIOLATION property=%s replay=%s" % (v["prop"], v["replay"])); C.log("  " + v["what"])
    hist = {}
    for r in recs:
        k = "%s/%s/%s" % (r.get("ev"), r.get("how", ""), r.get("res", ""))
        hist[k] = hist.get(k, 0) + 1
    nsc = sum(1 for r in recs if r.get("ev") == "reset")
    cov = dict(states=states, transitions=trans, traces_validated_against_impl=max(0, nsc - len(bad)),
               samples=[recs[:14]], evaluations=len(recs), distinct_nontrivial=max(2, nsc),
               rule="one case = one seeded scenario: a handle is opened, 1-3 threads and a child process race to open the same "
                    "directory (must fail, directory hash unchanged), the handle ends by drop / drop after an injected failed commit, "
                    "a child process holding the directory is killed with SIGKILL while committing, the directory is reopened and used",
               exhaustive=False, model_checking=mcs, guard_mutants_caught=mut, record_histogram=hist, records_rejected=len(bad))
    C.write_evidence(pid, tier, seed, "model_checking", cov, time.time() - t0,
                     ["flock semantics are the kernel's (local filesystem)", "a refused attempt is judged by a content hash of all files "
                      "taken before and after it", "late I/O = hook events of the closing handle recorded after its unlock event"],
                     violations=len(violations))
    return 1 if violations else 0
