"""Per-property plans for the API family and the generic driver that executes a plan."""
import json, os, random, time
from . import common as C, api, findings

ASSUME = [
    "blake3 / sha2 are collision free on the inputs used (a root is identified with the map it commits to)",
    "the reference trie (harness/src/refmodel.rs, written from docs/nomt_specification.md) is the oracle for root bytes",
    "keys are drawn from embeddings of 2-3 model keys (x F members), values from patterned size classes",
]

# what each property's check emphasises.  gens: list of dict(maxlog, rollback, num, depth, lean, focus)
PLANS = {
    "C01": dict(
        quick=dict(mc=["core2"], gens=[dict(maxlog=2, num=60, depth=24, lean=True, focus="commit")],
                   per_beh=3, fs=[1, 3, 25, 60], vts=["tiny", "edge", "ovf", "empty", "big", "mixed", "mixed2"],
                   embs=api.EMBEDDINGS_QUICK, forced=[("scatter", "mixed", 60)], clusters=6, wide=dict(runs=2, fs=[2000, 2400])),
        thorough=dict(mc=["core", "core2"], gens=[dict(maxlog=2, num=600, depth=30, lean=True, focus="commit"),
                                                  dict(maxlog=3, num=300, depth=30, lean=False, focus="commit")],
                      per_beh=4, fs=[1, 3, 25, 60, 400], vts=["tiny", "edge", "ovf", "empty", "big", "huge", "mixed", "mixed2"],
                      embs=api.EMBEDDINGS_ALL, forced=[("scatter", "mixed", 60), ("scatter", "mixed2", 200)], clusters=40,
                      wide=dict(runs=8, fs=[1500, 2000, 2400, 3000]))),
    "C02": dict(
        quick=dict(mc=["core2"], gens=[dict(maxlog=2, num=60, depth=24, lean=True, focus="commit"),
                                       dict(maxlog=2, num=500, depth=28, lean=True, focus="overlay", top=40, templates=True)],
                   per_beh=2, fs=[1, 1, 19, 21, 25], vts=["tiny", "edge", "ovf"], embs=api.EMBEDDINGS_QUICK, wide=dict(runs=2, fs=[2000, 2400])),
        thorough=dict(mc=["core", "core2"], gens=[dict(maxlog=2, num=600, depth=30, lean=True, focus="commit"),
                                                  dict(maxlog=2, num=3000, depth=30, lean=True, focus="overlay", top=300, templates=True)],
                      per_beh=5, fs=[1, 3, 19, 20, 21, 25, 400], vts=["tiny", "edge", "ovf"], embs=api.EMBEDDINGS_ALL,
                      wide=dict(runs=8, fs=[1500, 2000, 2400, 3000]))),
    "C05": dict(
        quick=dict(mc=["ovl"], gens=[dict(maxlog=2, num=400, depth=26, lean=True, focus="overlay", top=40, templates=True),
                                     dict(maxlog=2, num=40, depth=22, lean=True, focus="reopen")],
                   per_beh=2, fs=[1, 3, 25], vts=["tiny", "edge", "ovf", "ovf"],
                   embs=["top:z", "top:o", "deep(6):z", "deep(12):o", "spread(7):z", "tail", "deep(250)", "spread(64)", "scatter"]),
        thorough=dict(mc=["ovl", "core2"], gens=[dict(maxlog=2, num=4000, depth=30, lean=True, focus="overlay", top=400, templates=True),
                                                 dict(maxlog=2, num=300, depth=28, lean=True, focus="reopen")],
                      per_beh=4, fs=[1, 3, 25, 60], vts=["tiny", "edge", "ovf"], embs=api.EMBEDDINGS_ALL)),
    "C06": dict(
        quick=dict(mc=["core2"], gens=[dict(maxlog=2, num=70, depth=24, lean=True, focus="commit")],
                   per_beh=3, fs=[1, 3, 25], vts=["tiny", "edge"], embs=api.EMBEDDINGS_QUICK),
        thorough=dict(mc=["core", "core2"], gens=[dict(maxlog=2, num=600, depth=30, lean=True, focus="commit"),
                                                  dict(maxlog=2, num=300, depth=30, lean=False, focus="overlay")],
                      per_beh=5, fs=[1, 3, 25, 400], vts=["tiny", "edge", "ovf"], embs=api.EMBEDDINGS_ALL)),
    "C13": dict(
        quick=dict(mc=["core2"], gens=[dict(maxlog=2, num=24, depth=22, lean=True, focus="commit", templates="cold")],
                   per_beh=1, fs=[25, 60], vts=["tiny", "mixed"], embs=["top", "scatter", "deep(6):z", "spread(6)"], matrix=True,
                   wide=dict(runs=1, fs=[1500, 2000])),
        thorough=dict(mc=["core", "core2"], gens=[dict(maxlog=2, num=200, depth=28, lean=True, focus="commit", templates="cold")],
                      per_beh=2, fs=[3, 25, 60, 400], vts=["tiny", "mixed", "edge"], embs=api.EMBEDDINGS_ALL, matrix=True,
                      wide=dict(runs=3, fs=[1500, 2000, 2400], matrix_points=[0, 1, 2, 3, 4, 5]))),
    "C16": dict(
        quick=dict(mc=["core2"], gens=[dict(maxlog=2, num=60, depth=24, lean=True, focus="commit")],
                   per_beh=2, fs=[1, 3, 25, 60], vts=["tiny", "edge", "ovf", "mixed", "mixed2", "big"], embs=api.EMBEDDINGS_QUICK,
                   decode=True, tiny_ht=True, wide=dict(runs=3, fs=[2000, 2400])),
        thorough=dict(mc=["core", "core2"], gens=[dict(maxlog=2, num=500, depth=30, lean=True, focus="commit"),
                                                  dict(maxlog=1, num=200, depth=30, lean=False, focus="commit")],
                      per_beh=4, fs=[1, 3, 25, 60, 400], vts=["tiny", "edge", "ovf", "mixed", "mixed2", "big", "huge"],
                      embs=api.EMBEDDINGS_ALL, decode=True, tiny_ht=True, wide=dict(runs=12, fs=[1500, 2000, 2400, 3000]))),
    "C19": dict(
        quick=dict(mc=["core2"], gens=[dict(maxlog=2, num=60, depth=24, lean=True, focus="commit", templates="rollback")],
                   per_beh=2, fs=[1, 3, 25, 60], vts=["ovf", "mixed", "mixed2", "big", "edge"], embs=api.EMBEDDINGS_QUICK,
                   decode=True, tiny_ht=True, alloc=True, occupancy=5, flsweep=2, cycles=dict(runs=6, n=5, fs=[25, 60, 200], vts=["ovf", "mixed", "big", "edge"])),
        thorough=dict(mc=["core", "core2"], gens=[dict(maxlog=2, num=500, depth=32, lean=True, focus="commit", templates="rollback")],
                      per_beh=4, fs=[1, 3, 25, 60, 400], vts=["ovf", "mixed", "mixed2", "big", "edge", "huge"],
                      embs=api.EMBEDDINGS_ALL, decode=True, tiny_ht=True, alloc=True, occupancy=9, flsweep=24,
                      cycles=dict(runs=60, n=12, fs=[25, 60, 200, 400, 1200], vts=["ovf", "mixed", "mixed2", "big", "edge", "huge"]))),
    "C09": dict(
        quick=dict(mc=["core2"], gens=[dict(maxlog=1, num=40, depth=24, lean=True, focus="rollback"),
                                       dict(maxlog=2, num=40, depth=24, lean=True, focus="rollback", templates="rollback"),
                                       dict(maxlog=3, num=40, depth=24, lean=True, focus="rollback")],
                   per_beh=2, fs=[1, 3], vts=["tiny", "edge", "ovf", "big", "empty"], embs=api.EMBEDDINGS_QUICK,
                   segs=[4096, 8192, 65536, 0]),
        thorough=dict(mc=["core", "core2"], gens=[dict(maxlog=m, num=300, depth=32, lean=True, focus="rollback", templates="rollback")
                                                  for m in (1, 2, 3)],
                      per_beh=4, fs=[1, 3, 25], vts=["tiny", "edge", "ovf", "big", "huge", "empty"], embs=api.EMBEDDINGS_ALL,
                      segs=[4096, 8192, 65536, 0])),
    "C10": dict(
        quick=dict(mc=["core2"], gens=[dict(maxlog=2, num=600, depth=24, lean=True, focus="reopen", top=60)],
                   per_beh=2, fs=[1, 3, 25], vts=["tiny", "edge", "ovf", "empty", "empty2"], embs=api.EMBEDDINGS_QUICK, reopen_cfgs=True,
                   twins="reopen"),
        thorough=dict(mc=["core", "core2"], gens=[dict(maxlog=2, num=5000, depth=30, lean=True, focus="reopen", top=500),
                                                  dict(maxlog=1, num=200, depth=30, lean=True, focus="reopen")],
                      per_beh=4, fs=[1, 3, 25, 400], vts=["tiny", "edge", "ovf", "big", "empty"], embs=api.EMBEDDINGS_ALL,
                      reopen_cfgs=True, twins="reopen")),
    "C11": dict(
        quick=dict(mc=["ovl"], gens=[dict(maxlog=2, num=2500, depth=28, lean=True, focus="overlay", top=120, templates=True)],
                   per_beh=2, fs=[1, 1, 3, 25], vts=["tiny", "edge", "ovf", "ovf", "mixed"], embs=api.EMBEDDINGS_QUICK),
        thorough=dict(mc=["ovl", "ovl3"], gens=[dict(maxlog=2, num=6000, depth=32, lean=True, focus="overlay", top=600, templates=True),
                                                dict(maxlog=2, num=300, depth=32, lean=False, focus="overlay")],
                      per_beh=4, fs=[1, 3, 25], vts=["tiny", "edge", "ovf", "mixed"], embs=api.EMBEDDINGS_ALL)),
    "C12": dict(
        quick=dict(mc=["core2"], gens=[dict(maxlog=2, num=80, depth=26, lean=True, focus="rejected", templates="rejected"),
                                       dict(maxlog=2, num=1500, depth=30, lean=True, focus="overlay", top=30)],
                   per_beh=1, fs=[1, 3], vts=["tiny", "edge"], embs=api.EMBEDDINGS_QUICK, twins="rejected"),
        thorough=dict(mc=["core", "core2", "ovl"], gens=[dict(maxlog=2, num=600, depth=32, lean=True, focus="rejected", templates="rejected"),
                                                         dict(maxlog=1, num=300, depth=32, lean=False, focus="rejected")],
                      per_beh=3, fs=[1, 3, 25], vts=["tiny", "edge", "ovf"], embs=api.EMBEDDINGS_ALL, twins="rejected")),
}


def run_plan(pid, tier, seed, extra_cov=None, t0=None):
    t0 = t0 or time.time()
    plan = PLANS[pid][tier]
    rng = random.Random(seed * 7919 + int(pid[1:]))
    violations = []
    known = []
    notes = []
    # 1. design level: TLC on NomtApi
    states = trans = 0
    mc_summ = []
    for name in ([] if os.environ.get("VERIF_DEBUG_SKIP_MC") else plan["mc"]):
        r = api.mc(name, pid)
        states += r["states"]
        trans += r["transitions"]
        mc_summ.append(dict(config=name, states=r["states"], transitions=r["transitions"], ok=r["ok"],
                            wall_s=round(r["wall"], 1)))
        C.log("[%s] TLC NomtApi/%s: %d distinct states, %d transitions, ok=%s (%.0fs)" %
              (pid, name, r["states"], r["transitions"], r["ok"], r["wall"]))
        if not r["ok"]:
            p = C.write_replay(pid, "design-%s" % name, dict(kind="tlc-counterexample", config=name,
                                                             output=r["output"][-20000:]))
            violations.append(dict(prop=pid, replay=p, what="NomtApi invariant violated at design level"))
    if pid == "C16" and not os.environ.get("VERIF_DEBUG_SKIP_MC"):
        # finding F24 at design level (spec/Aba.tla): under the code's by-value validity check a changeset can be
        # applied to a layout it was not prepared against (the counterexample must exist), under an epoch check it cannot
        for guard, expect_ok in (("by-value", False), ("epoch", True)):
            cfg = os.path.join(C.OUT, "Aba_%s_%s.cfg" % (pid, guard.replace("-", "")))
            C.write_cfg(cfg, "Spec", dict(Values={1, 2}, Guard=guard, MaxSyncs=4), invariants=["LayoutKnowledgeCurrent"])
            rc, out = C.run_tlc("Aba.tla", cfg, tag="aba" + pid, timeout=300, nworkers=2)
            st, gen = C.tlc_stats(out)
            ok = rc == 0 and "No error has been found" in out
            if ok != expect_ok:
                raise C.ToolError("Aba.tla with Guard=%s: expected ok=%s, got ok=%s\n%s" % (guard, expect_ok, ok, out[-1500:]))
            states += st
            trans += gen
            mc_summ.append(dict(config="Aba Guard=%s (F24 %s)" % (guard, "counterexample" if not expect_ok else "excluded"),
                                states=st, transitions=gen, ok=ok, wall_s=0))
        if tier == "thorough":
            # the same statement for every Values / MaxSyncs: spec/AbaProof.tla is a TLAPS proof that the epoch guard
            # makes LayoutKnowledgeCurrent inductive (about the proposed repair, so its outcome is reported, not judged)
            import shutil, subprocess, tempfile, re as _re
            d = tempfile.mkdtemp(prefix="nomt-verif-tlaps-", dir="/var/tmp")
            try:
                for f in ("Aba.tla", os.path.join("proofs", "AbaProof.tla")):
                    shutil.copy(os.path.join(C.SPEC, f), d)
                pr = subprocess.run(["timeout", "600", "tlapm", "--threads", "4", "AbaProof.tla"], cwd=d,
                                    stdout=subprocess.PIPE, stderr=subprocess.STDOUT, text=True)
                m = _re.search(r"All (\d+) obligations proved", pr.stdout)
                C.log("[%s] TLAPS AbaProof: %s" % (pid, m.group(0) if m else "not proved (rc=%d)" % pr.returncode))
                mc_summ.append(dict(config="AbaProof (TLAPS, unbounded): " + (m.group(0) if m else "not proved"),
                                    states=0, transitions=0, ok=bool(m), wall_s=0))
            except OSError as e:
                C.log("[%s] TLAPS AbaProof not run: %s" % (pid, e))
            finally:
                shutil.rmtree(d, ignore_errors=True)
    if pid == "C19" and not os.environ.get("VERIF_DEBUG_SKIP_MC"):
        # the free list of the value files has its own transcription (nothing lost, nothing handed out twice)
        from . import freelist
        fs, ft, fsum = freelist.design_level(pid, tier, violations)
        states += fs
        trans += ft
        mc_summ.extend(dict(config=x["config"], states=x["states"], transitions=0, ok=x["ok"], wall_s=0) for x in fsum)
    # 2./3. behaviours -> scripts
    scripts = {}
    classes = {}     # run -> constants class key
    consts_by_class = {}
    script_by_run = {}
    twin_of = {}
    twin_prop = {}
    forced_twin = {}
    group_of = {}
    run = 0
    nbeh = 0
    distinct = set()
    for gi, g in enumerate(plan["gens"]):
        consts = api.gen_constants(maxlog=g["maxlog"], rollback=g.get("rollback", True))
        ckey = "ml%d_rb%d" % (g["maxlog"], 1 if g.get("rollback", True) else 0)
        consts_by_class[ckey] = consts
        behs = api.gen_behaviours(consts, g["num"], g["depth"], seed * 1000 + gi, g["lean"], "%s_%d" % (pid, gi))
        kept = [b for b in behs if api.interesting(b, g["focus"])]
        if g.get("top"):
            # generate many, keep the behaviours richest in the features of the focus
            kept = sorted(kept, key=lambda b: -api.score(b, g["focus"]))[: g["top"]]
        if g.get("templates") == "cold":
            ct = api.cold_templates(sorted(consts["Keys"]))
            kept = kept + (ct if tier == "thorough" else ct[:2])
            tpl = []
        elif g.get("templates") == "rejected":
            kept = kept + api.rejected_templates(sorted(consts["Keys"]))
            tpl = []
        elif g.get("templates") == "rollback":
            tpl = api.rollback_templates(sorted(consts["Keys"]), g["maxlog"])
            tpl = tpl if tier == "thorough" else rng.sample(tpl, 8)
        elif g.get("templates"):
            kept = kept + api.overlay_templates(sorted(consts["Keys"]))
            tpl = api.rollback_templates(sorted(consts["Keys"]), g["maxlog"])
            tpl = tpl if tier == "thorough" else rng.sample(tpl, 6)
        else:
            tpl = []
        for tb, ttw in tpl:
            kept.append(tb)
            forced_twin[id(tb)] = ttw
        C.log("[%s] generated %d behaviours (maxlog=%d), %d match focus '%s'" %
              (pid, len(behs), g["maxlog"], len(kept), g["focus"]))
        for b in kept:
            nbeh += 1
            reps = []
            for rep in range(plan["per_beh"]):
                store, conc = api.concretise(b, consts, rng, f=rng.choice(plan["fs"]), emb=rng.choice(plan["embs"]),
                                             vt=rng.choice(plan["vts"]),
                                             segment_size=rng.choice(plan["segs"]) if plan.get("segs") else None)
                if rep < len(plan.get("forced", [])):
                    # a fixed concretisation every behaviour is also run under (interleaved groups of mixed-size cells:
                    # leaves hold inline and overflow cells side by side, group deletions make them merge)
                    fe, fv, ff = plan["forced"][rep]
                    conc.update(emb=fe, vtable=api.VTABLES[fv], f=ff)
                if plan.get("tiny_ht"):
                    # tiny hash tables (heavy tombstoning) as well as roomy ones
                    pages_needed = 8 + conc["f"] * 3
                    store["hashtable_buckets"] = rng.choice([max(64, 4 * pages_needed), 4096, 64000])
                if plan.get("matrix"):
                    # C13: the same behaviour and concretisation under every point of the configuration matrix
                    for mc in api.CONFIG_MATRIX:
                        st2 = dict(mc)
                        st2.update(rollback=store["rollback"], max_rollback_log_len=store["max_rollback_log_len"],
                                   seed=rng.randrange(1 << 30))
                        if st2.get("hashtable_buckets") == "tiny":
                            st2["hashtable_buckets"] = max(64, int(rng.choice([1.5, 2, 3]) * (8 + conc["f"] * 3)))
                        reps.append((st2, conc))
                else:
                    reps.append((store, conc))
            for store, conc in reps:
                bb = [dict(s) for s in b]
                if plan.get("reopen_cfgs"):
                    for s in bb:
                        if s["a"] == "Reopen":
                            nc = dict(rng.choice(api.STORE_CFGS))
                            nc["rollback"] = store["rollback"]
                            nc["max_rollback_log_len"] = store["max_rollback_log_len"]
                            nc["segment_size"] = store.get("segment_size", 0)
                            s["cfg"] = nc
                run += 1
                sc = api.make_script(run, bb, store, conc)
                if plan.get("decode"):
                    sc["decode"] = True
                if plan.get("matrix"):
                    group_of[run + 0] = C.sha([bb, conc])     # same history, same concretisation, another configuration
                scripts[run] = sc
                classes[run] = ckey
                script_by_run[run] = sc
                distinct.add(C.sha([bb, store, conc]))
                tw = None
                tprop = "C12" if plan.get("twins") == "rejected" else "C10"
                if id(b) in forced_twin:
                    tw, tprop = [dict(x) for x in forced_twin[id(b)]], "C11"
                elif plan.get("twins") == "rejected":
                    tw = api.twin_without_rejected(bb)
                elif plan.get("twins") == "reopen":
                    tw = api.twin_without_reopen(bb)
                if tw is not None:
                    run += 1
                    tsc = api.make_script(run, tw, store, conc)
                    scripts[run] = tsc
                    classes[run] = ckey
                    script_by_run[run] = tsc
                    twin_of[run - 1] = run
                    twin_prop[run - 1] = tprop
    if plan.get("clusters"):
        # large groups under long shared key prefixes that are not byte aligned: the value tree's branch nodes are
        # rebuilt with prefix lengths far apart (one group deleted, its neighbour rewritten with another size class)
        consts = consts_by_class.get("ml2_rb1") or api.gen_constants(maxlog=2)
        consts_by_class.setdefault("ml2_rb1", consts)
        keys = sorted(consts["Keys"])
        NCH = {k: "NoCh" for k in keys}
        for ci in range(plan["clusters"]):
            beh = []
            def commit(w):
                beh.extend([dict(a="Begin", s=1, chain=[], res="Ok"), dict(a="Finish", s=1, f=1, w=dict(NCH, **w)),
                            dict(a=rng.choice(["Commit", "TryCommit"]), f=1, res="Ok")])
            if ci % 3 == 2:
                # runs of keys sharing more than 200 bits, the runs far apart: one branch node holds prefix-compressed
                # separators followed by separators stored in full
                a, b, c = rng.sample(keys, 3)
                commit({a: "v1", b: "v1", c: "v1"})
                commit({a: "v2", c: "Nil"})
                commit({b: "Nil", c: "v1"})
                store, conc = api.concretise(beh, consts, rng, f=rng.choice([400, 600]), emb=rng.choice(["ctop", "ctop:z"]), vt="tiny",
                                             store=dict(commit_concurrency=rng.choice([1, 2])))
                conc["vtable"] = {"v1": "1000", "v2": "inline-max", "v3": "tiny"}
            elif ci % 2 == 0:
                # the family that exposed the branch-node separator corruption (push_chunk with prefix lengths
                # more than 57 bits apart): the lowest group is deleted while a higher one moves from inline to
                # overflow values, 400 members each, 127 shared bits
                a, b = keys[0], rng.choice(keys[1:])
                commit({a: "v2", b: "v1"})
                commit({a: "Nil", b: "v2"})
                store, conc = api.concretise(beh, consts, rng, f=400, emb="deep(127)", vt="edge", store=dict(commit_concurrency=1))
            else:
                a, b, c = rng.sample(keys, 3)
                commit({a: "v2", b: "v1"})
                commit({a: "Nil", b: "v2"})
                commit({c: "v1", b: "Nil"})
                commit({a: "v1", c: "v2"})
                store, conc = api.concretise(beh, consts, rng, f=rng.choice([200, 300, 400]),
                                             emb=rng.choice(["deep(127)", "deep(125)", "deep(63)", "deep(200)", "lopsided(127)", "lopsided(60)"]),
                                             vt=rng.choice(["edge", "edge", "ovf"]), store=dict(commit_concurrency=rng.choice([1, 2])))
            run += 1
            sc = api.make_script(run, beh, store, conc)
            sc["decode"] = True
            scripts[run] = sc
            classes[run] = "ml2_rb1"
            script_by_run[run] = sc
            distinct.add(C.sha([beh, store, conc]))
    if plan.get("occupancy"):
        consts = consts_by_class.get("ml2_rb1") or api.gen_constants(maxlog=2)
        consts_by_class.setdefault("ml2_rb1", consts)
        tpls = api.occupancy_templates(sorted(consts["Keys"]))
        for beh in (tpls if tier == "thorough" else rng.sample(tpls, plan["occupancy"])):
            for rep in range(2 if tier == "thorough" else 1):
                store, conc = api.concretise(beh, consts, rng, f=rng.choice([25, 40, 60]),
                                             emb=rng.choice(["deep(12)", "deep(18)", "top", "spread(6)", "deep(6)"]),
                                             vt=rng.choice(["tiny", "ovf", "mixed"]))
                store["hashtable_buckets"] = rng.choice([1024, 4096, 64000])
                run += 1
                sc = api.make_script(run, beh, store, conc)
                sc["decode"] = True
                scripts[run] = sc
                classes[run] = "ml2_rb1"
                script_by_run[run] = sc
                distinct.add(C.sha([beh, store, conc]))
    if plan.get("flsweep"):
        # multi-page free lists (several thousand freed pages), written out in full for FreeListTrace / AllocTrace
        from . import sync as _sync
        extra, fconsts = _sync.freelist_sweep_scripts(pid, rng, run, plan["flsweep"])
        consts_by_class.setdefault("ml2_rb1", fconsts)
        for sc in extra:
            sc["decode"] = True
            sc["decode_full"] = True
            run = max(run, sc["run"])
            scripts[sc["run"]] = sc
            classes[sc["run"]] = "ml2_rb1"
            script_by_run[sc["run"]] = sc
            distinct.add(C.sha([sc["steps"], sc["cfg"], sc["conc"]]))
    cycle_runs = []
    if plan.get("cycles"):
        # fill / overwrite-with-another-size-class / empty cycles (legal NomtApi behaviours; ApiTrace validates them too)
        consts = consts_by_class.get("ml2_rb1") or api.gen_constants(maxlog=2)
        consts_by_class.setdefault("ml2_rb1", consts)
        keys = sorted(consts["Keys"])
        for ci in range(plan["cycles"]["runs"]):
            beh = []
            def commit(w):
                beh.extend([dict(a="Begin", s=1, chain=[], res="Ok"), dict(a="Finish", s=1, f=1, w=w), dict(a="Commit", f=1, res="Ok")])
            for c in range(plan["cycles"]["n"]):
                commit({k: "v1" for k in keys})
                commit({k: "v2" for k in keys})
                commit({k: "Nil" for k in keys})
            store, conc = api.concretise(beh, consts, rng, f=rng.choice(plan["cycles"]["fs"]), emb=rng.choice(plan["embs"]),
                                         vt=rng.choice(plan["cycles"]["vts"]))
            store["hashtable_buckets"] = 64000
            run += 1
            sc = api.make_script(run, beh, store, conc)
            sc["decode"] = True
            scripts[run] = sc
            classes[run] = "ml2_rb1"
            script_by_run[run] = sc
            cycle_runs.append(run)
            distinct.add(C.sha([beh, store, conc]))
    if plan.get("wide"):
        # wide trees: thousands of leaves under several bottom-level branch nodes, commits by several workers that erase
        # whole key ranges next to ranges they rewrite (branch nodes become underfull and merge with a neighbour another
        # worker has just rewritten).  Legal NomtApi behaviours; every image is decoded.
        consts = consts_by_class.get("ml2_rb1") or api.gen_constants(maxlog=2)
        consts_by_class.setdefault("ml2_rb1", consts)
        keys = sorted(consts["Keys"])
        N = {k: "NoCh" for k in keys}
        a, b, c = keys[0], keys[1], keys[2]
        shapes = [[{a: "v1", b: "v1", c: "v1"}, {a: "Nil", c: "v2"}, {b: "Nil"}, {a: "v1", c: "v1"}, "reopen", {c: "Nil", b: "v1"}],
                  [{a: "v1", b: "v1", c: "v1"}, {b: "Nil", c: "v2"}, {a: "Nil", c: "v1"}, "reopen", {a: "v1", b: "v1"}, {c: "Nil", a: "v2"}],
                  [{a: "v1", b: "v1", c: "v1"}, {a: "v2", b: "Nil"}, {a: "Nil", b: "v1", c: "v2"}, {b: "Nil"}, "reopen", {c: "Nil"}]]
        for wi in range(plan["wide"]["runs"]):
            beh = []
            for w in shapes[wi % len(shapes)]:
                if w == "reopen":
                    beh += [dict(a="Close"), dict(a="Reopen")]
                else:
                    beh += [dict(a="Begin", s=1, chain=[], res="Ok"), dict(a="Finish", s=1, f=1, w=dict(N, **w)), dict(a="Commit", f=1, res="Ok")]
            store, conc = api.concretise(beh, consts, rng, f=rng.choice(plan["wide"]["fs"]), emb="top", vt="tiny")
            conc["vtable"] = {"v1": "inline-max", "v2": "small", "v3": "tiny"}
            store.update(hashtable_buckets=16000, commit_concurrency=[2, 3, 2, 4][wi % 4])
            stores = [store]
            if plan.get("matrix"):
                # C13: the same wide history under several points of the configuration matrix (1 .. 64 workers)
                stores = []
                for mc in (api.CONFIG_MATRIX[k] for k in plan["wide"].get("matrix_points", [0, 2, 3, 4])):
                    st2 = dict(mc)
                    st2.update(rollback=store["rollback"], max_rollback_log_len=store["max_rollback_log_len"], seed=rng.randrange(1 << 30),
                               hashtable_buckets=16000)
                    stores.append(st2)
            for store in stores:
                run += 1
                sc = api.make_script(run, beh, store, conc)
                sc["decode"] = bool(plan.get("decode"))
                if plan.get("matrix"):
                    group_of[run] = C.sha([beh, conc])
                scripts[run] = sc
                classes[run] = "ml2_rb1"
                script_by_run[run] = sc
                distinct.add(C.sha([beh, store, conc]))
    if pid == "C16":
        # the history on which the recorded finding F24 is reproduced (so that every run of this check shows it:
        # KNOWN-FINDING while it is there, nothing once it is repaired)
        kp = os.path.join(C.VERIF, "known", "F24-script.json")
        if os.path.exists(kp):
            kf = json.load(open(kp))
            consts = consts_by_class.get("ml2_rb1") or api.gen_constants(maxlog=2)
            consts_by_class.setdefault("ml2_rb1", consts)
            run += 1
            sc = api.make_script(run, kf["steps"], kf["cfg"], kf["conc"])
            sc["decode"] = True
            scripts[run] = sc
            classes[run] = "ml2_rb1"
            script_by_run[run] = sc
            distinct.add(C.sha([kf["steps"], kf["cfg"], kf["conc"]]))
    if os.environ.get("VERIF_DEBUG_ONLY_RUNS"):
        # debugging aid: regenerate the plan deterministically, keep only the named runs (and their twins)
        only = {int(x) for x in os.environ["VERIF_DEBUG_ONLY_RUNS"].split(",")}
        only |= {twin_of[r] for r in only if r in twin_of}
        scripts = {r: sc for r, sc in scripts.items() if r in only}
        if os.environ.get("VERIF_DEBUG_DUMP"):
            with open(os.environ["VERIF_DEBUG_DUMP"], "w") as f:
                for sc in scripts.values():
                    f.write(json.dumps(sc) + "\n")
    C.log("[%s] replaying %d scripts (%d behaviours) against the real store" % (pid, len(scripts), nbeh))
    # 4. replay
    runs, hangs = api.replay(list(scripts.values()), pid)
    C.panic_violations(pid, runs, script_by_run, violations)
    for h in hangs:
        sig = findings.match_hang(pid, h)
        if sig:
            known.append(sig)
        else:
            p = C.write_replay(pid, "hang-%d" % len(violations), C.hang_payload(h, script_by_run))
            violations.append(dict(prop=pid, replay=p, what="call did not return: " + h[:200]))
    # 5. validate
    accepted_total = 0
    rejections = []
    for ckey, consts in consts_by_class.items():
        ids = sorted(r for r in runs if classes.get(r) == ckey)
        if plan.get("twins") == "reopen":
            consts = dict(consts, MaxOvl=16)      # twins without Close never recycle overlay identifiers
        acc, rej = api.validate_runs(ids, runs, consts, "%s_%s" % (pid, ckey))
        accepted_total += len(acc)
        rejections.extend(rej)
    # 6. attribute
    accepted_set_rejected_runs = {r["run"] for r in rejections}
    rej_sig = {r["run"]: (r["pos"], tuple(sorted(r.get("classes", [r["cls"]])))) for r in rejections}
    for rej in rejections:
        sc = script_by_run[rej["run"]]
        prop = api.attribute(rej, sc["steps"])
        props = api.attribute_all(rej, sc["steps"])
        # C13: the same history under another configuration is accepted (or rejected elsewhere): the observable
        # results depend on the configuration
        g = group_of.get(rej["run"])
        if g is not None and any(rej_sig.get(o) != rej_sig[rej["run"]] for o in group_of if group_of[o] == g and o != rej["run"] and o in runs):
            props.add("C13")
        # differential attribution through twins
        is_twin = rej["run"] in twin_of.values()
        if not is_twin and rej["run"] in twin_of and twin_of[rej["run"]] not in accepted_set_rejected_runs \
                and twin_of[rej["run"]] in runs:
            prop = twin_prop.get(rej["run"], "C10")
            props.add(prop)
        payload = dict(kind="api-trace", property=prop, found_by=pid, script=sc, rejected_step=rej["pos"],
                       rejected_record=rej["record"], failing_class=rej["cls"], tier=tier, seed=seed)
        fid = findings.match_api(prop, rej, sc)
        if fid:
            known.append(fid)
            continue
        props.add(prop)
        if pid not in props:
            notes.append("trace of run %d rejected at step %d (%s, classes %s): attributed to %s, reported by its own check"
                         % (rej["run"], rej["pos"], rej["record"].get("ev"), rej.get("classes", [rej["cls"]]), sorted(props)))
            continue
        prop = pid
        p = C.write_replay(pid, "run%d" % rej["run"], payload)
        violations.append(dict(prop=prop, replay=p,
                               what="store behaviour is not a behaviour of NomtApi: %s res=%s class=%s" %
                                    (rej["record"].get("ev"), rej["record"].get("res"), rej["cls"])))
    # 6b. C19/C16: consecutive decoder snapshots must be related by Alloc!Step
    alloc_pairs = 0
    if plan.get("alloc"):
        pairs = []
        for r in sorted(runs):
            prev = {}
            for rec in runs[r]:
                dec = rec.get("st", {}).get("dec") if isinstance(rec.get("st"), dict) else None
                if rec.get("ev") == "reset":
                    prev = {}
                if not dec:
                    continue
                for fname in ("ln", "bbn"):
                    cur = dec.get(fname)
                    if cur and "live" in cur:
                        if fname in prev and "live" in prev[fname]:
                            pairs.append(dict(run=r, i=rec.get("i"), file=fname, a=prev[fname], b=cur))
                        prev[fname] = cur
                    else:
                        prev.pop(fname, None)
        # frontier records of the fill/empty cycles: bump pointers observed after every emptying commit
        for r in cycle_runs:
            for fname in ("ln", "bbn"):
                bumps = []
                for rec in runs.get(r, []):
                    st = rec.get("st") if isinstance(rec.get("st"), dict) else None
                    if rec.get("ev") == "Commit" and st and st.get("dec") and all(v == "Nil" for v in st["kv"].values()):
                        b = st["dec"].get(fname, {}).get("bump")
                        if b is not None:
                            bumps.append(b)
                if len(bumps) >= 2:
                    # slack: the free list needs ceil(free/1022)+1 pages of its own, and the rollback sync keeps one generation
                    pairs.append(dict(run=r, file=fname, bumps=bumps, slack=max(4, bumps[0] // 500 + 4)))
        alloc_pairs = len(pairs)
        bad_pairs = validate_alloc(pairs, pid) if pairs else []
        for i in bad_pairs[:5]:
            pr = pairs[i]
            p = C.write_replay(pid, "alloc-run%d-%s" % (pr["run"], pr["file"]), dict(kind="alloc-pair", property=pid, pair=pr,
                                                                                     script=script_by_run[pr["run"]]))
            if "bumps" in pr:
                violations.append(dict(prop=pid, replay=p, what="allocation frontier of %s keeps growing over fill/empty cycles: %s"
                                                                % (pr["file"], pr["bumps"])))
            else:
                violations.append(dict(prop=pid, replay=p, what="page accounting of %s between two commits is not an Alloc!Step "
                                                                "(leak, reuse of a live page, or incomplete partition)" % pr["file"]))
        # 6c. the free list itself: FreeList!Finish predicts the list after each sync from the list before it
        flpairs = [pr for pr in pairs if "bumps" not in pr and "flp" in pr["a"] and "flp" in pr["b"]
                   and not (pr["a"]["flp"] == pr["b"]["flp"] and pr["a"]["bump"] == pr["b"]["bump"] and pr["a"]["live"] == pr["b"]["live"])]
        # pairs with a list of several pages take seconds each in TLC (thousands of items): a bounded number of those,
        # and a sample of the small ones
        big = [pr for pr in flpairs if len(pr["a"]["flp"]) > 1 or len(pr["b"]["flp"]) > 1]
        small = [pr for pr in flpairs if not (len(pr["a"]["flp"]) > 1 or len(pr["b"]["flp"]) > 1)]
        nbig, nsmall = (40, 460) if tier == "quick" else (160, 4000)
        flpairs = (big if len(big) <= nbig else rng.sample(big, nbig)) + (small if len(small) <= nsmall else rng.sample(small, nsmall))
        if flpairs:
            bad_fl = validate_freelist(flpairs, pid)
            multi = sum(1 for pr in flpairs if len(pr["a"]["flp"]) > 1 or len(pr["b"]["flp"]) > 1)
            C.log("[%s] FreeListTrace: %d snapshot pairs (%d with a list of several pages), %d not predicted" % (pid, len(flpairs), multi, len(bad_fl)))
            alloc_pairs += len(flpairs)
            for i in bad_fl[:5]:
                pr = flpairs[i]
                p = C.write_replay(pid, "freelist-run%d-%s-%s" % (pr["run"], pr["file"], pr.get("i")),
                                   dict(kind="freelist-pair", property=pid, pair=pr, script=script_by_run[pr["run"]]))
                violations.append(dict(prop=pid, replay=p, what="the free list of %s after a sync is not the one FreeList!Finish predicts "
                                                                "from the list before it (step %s)" % (pr["file"], pr.get("i"))))
    # 7. report
    for k in sorted(set(json.dumps(x, sort_keys=True) for x in known)):
        k = json.loads(k)
        C.log("KNOWN-FINDING: property=%s %s" % (k["property"], k["what"]))
    for n in notes[:20]:
        C.log("NOTE: " + n)
    for v in violations:
        C.log("VIOLATION property=%s replay=%s" % (v["prop"], v["replay"]))
        C.log("  " + v["what"])
    samples = []
    for r in sorted(scripts)[:3]:
        sc = scripts[r]
        samples.append(dict(store=sc["cfg"], emb=sc["conc"]["emb"], F=sc["conc"]["f"], vtable=sc["conc"]["vtable"],
                            steps=[{k: v for k, v in s.items() if k != "cfg"} for s in sc["steps"]]))
    nsteps = sum(len(v) for v in runs.values())
    cov = dict(states=states, transitions=trans, traces_validated_against_impl=accepted_total,
               samples=samples, evaluations=nsteps, distinct_nontrivial=len(distinct),
               rule="behaviours are TLC simulations of ApiGen (NomtApi + history) filtered by focus; a case is one "
                    "(behaviour, store configuration, concretisation); distinct by hash; non-trivial = contains at "
                    "least one successful commit (all kept behaviours do); evaluations = observation records validated",
               exhaustive=False, model_checking=mc_summ, behaviours=nbeh, scripts=len(scripts),
               traces_rejected=len(rejections), known_findings=sorted({k["id"] for k in known}),
               notes=notes[:20], alloc_transitions_checked=alloc_pairs)
    if extra_cov:
        # this check has a second leg (e.g. the proof-system leg of C05): keep its coverage and add up the counts
        cov["other_leg"] = extra_cov
        for k in ("states", "transitions", "traces_validated_against_impl", "evaluations", "distinct_nontrivial"):
            cov[k] = cov.get(k, 0) + int(extra_cov.get(k, 0))
    C.write_evidence(pid, tier, seed, "exploration" if pid == "C13" else "model_checking", cov, time.time() - t0, ASSUME,
                     violations=len(violations) + int((extra_cov or {}).get("leg_violations", 0)))
    return 1 if violations else 0


def validate_freelist(pairs, tag):
    """FreeListTrace over the (a, b) snapshot pairs.  Records are judged independently of each other, so identical
    pairs are validated once and the distinct ones are dealt out (most expensive first) to several TLC processes."""
    import re
    tdir = os.path.join(C.OUT, "traces")
    os.makedirs(tdir, exist_ok=True)
    distinct = {}            # canonical JSON -> indices into pairs
    for i, p in enumerate(pairs):
        line = json.dumps(dict(file=p["file"], a=dict(bump=p["a"]["bump"], live=p["a"]["live"], flp=p["a"]["flp"]),
                               b=dict(bump=p["b"]["bump"], live=p["b"]["live"], flp=p["b"]["flp"])), sort_keys=True)
        distinct.setdefault(line, []).append(i)
    lines = sorted(distinct, key=len, reverse=True)
    nproc = max(1, min(12, C.workers() - 2, (len(lines) + 199) // 200))
    chunks = [lines[k::nproc] for k in range(nproc)]
    cfg = os.path.join(C.OUT, "FreeListTrace_%s.cfg" % tag)
    C.write_cfg(cfg, "TSpec", dict(M=1022, MaxPage=100000000, MaxAlloc=0, MaxFreed=0, MaxSyncs=0, Drop=set(), AllSubsets=False, MaxWaste=160),
                postcondition="Finished")
    C.log("[freelist] %d snapshot pairs, %d distinct, %d TLC processes" % (len(pairs), len(lines), nproc))
    results = [None] * nproc

    def one(k):
        tp = os.path.join(tdir, "freelist_%s_%d.ndjson" % (tag, k))
        with open(tp, "w") as f:
            for line in chunks[k]:
                f.write(line + "\n")
        results[k] = C.run_tlc("FreeListTrace.tla", cfg, tag="freelisttrace%s-%d" % (tag, k), nworkers=1, timeout=5400, heap="3g",
                               env_extra={"TRACE": tp}, java_opts="-Xss1g -Dtlc2.tool.queue.IStateQueue=StateDeque")
        os.remove(tp)

    import threading
    ths = [threading.Thread(target=one, args=(k,)) for k in range(nproc)]
    for t in ths:
        t.start()
    for t in ths:
        t.join()
    bad = []
    for k in range(nproc):
        rc, out = results[k]
        if '"TRACE-COMPLETE"' not in out:
            raise C.ToolError("FreeListTrace did not complete (part %d of %d):\n%s" % (k, nproc, out[-2000:]))
        for m in re.finditer(r'<<"BAD-RECORD", (\d+)>>', out):
            bad.extend(distinct[chunks[k][int(m.group(1)) - 1]])
    return sorted(bad)


def validate_alloc(pairs, tag):
    import re
    tdir = os.path.join(C.OUT, "traces")
    os.makedirs(tdir, exist_ok=True)
    tp = os.path.join(tdir, "alloc_%s.ndjson" % tag)
    with open(tp, "w") as f:
        for p in pairs:
            f.write(json.dumps(p) + "\n")
    cfg = os.path.join(C.OUT, "AllocTrace_%s.cfg" % tag)
    with open(cfg, "w") as f:
        f.write("SPECIFICATION TSpec\nCONSTANTS\n  MaxPage = 1\n  PerFlPage = 1\nPOSTCONDITION Finished\nCHECK_DEADLOCK FALSE\n")
    rc, out = C.run_tlc("AllocTrace.tla", cfg, tag="alloctrace" + tag, nworkers=1, timeout=1200, heap="4g", env_extra={"TRACE": tp},
                        java_opts="-Xss1g -Dtlc2.tool.queue.IStateQueue=StateDeque")
    if '"TRACE-COMPLETE"' not in out:
        raise C.ToolError("AllocTrace did not complete:\n" + out[-2000:])
    return [int(m.group(1)) - 1 for m in re.finditer(r'<<"BAD-RECORD", (\d+)>>', out)]
