"""What MANIFEST.json says about each claimed property."""

HOOK_COMMITS = ["34ba92b", "6392308", "4d0deaa", "0a7e437"]

ENGINES = [
    dict(name="tlc", path="/usr/local/bin/tlc", kind_free_text="TLC 1.8.0 explicit-state model checker: exhaustive checking of the specifications in /verif/spec, simulation-mode behaviour generation, trace validation",
         serves_properties=["C01", "C02", "C03", "C04", "C05", "C06", "C07", "C08", "C09", "C10", "C11", "C12", "C14", "C17", "C18"]),
    dict(name="nvh", path="/verif/harness", kind_free_text="Rust conformance harness (path dependency on /repo, built with --cfg nomt_verif): replays TLC behaviours against the real store and records observation traces",
         serves_properties=["C01", "C02", "C09", "C10", "C11", "C12"]),
]

NOTES = ("Technique: model-based verification with explicit TLA+ specifications (/verif/spec), checked with TLC and bound "
         "to the implementation in both directions (TLC-generated behaviours replayed in the real store; recorded "
         "observation traces validated by TLC against the same specification).  See DESIGN.md.  Hook call sites are "
         "add-only #[cfg(nomt_verif)] statements; the one unguarded added line is `#![allow(unexpected_cfgs)]` in "
         "nomt/src/lib.rs so that guard-off builds stay warning free.")

_API_NOTE = ("Trusted: TLC; the harness' value/byte classification and reference trie root (harness/src/refmodel.rs, "
             "written from docs/nomt_specification.md); collision resistance of blake3/sha2.  Exhaustive only for the "
             "small constants of the design-level configuration; the real store is driven through TLC-simulated "
             "behaviours under sampled concretisations (key embeddings, group sizes, value size classes, store options).")

_SEG = (" The rollback segment log has its own specification (Seglog: one action per file operation, process crash between "
        "any two and during recovery, seglog::open transcribed; invariants NeverFails, RingIsTruth, NoStaleRecord, NoGap) which is "
        "model-checked and against which every recorded file operation of the real log%s is validated by TLC (SeglogTrace).")

def _api(text, ref):
    return dict(level="model_checking", engine="tlc", design_ref=ref, note=_API_NOTE, text=text,
                technique="TLA+ specification NomtApi checked exhaustively with TLC; TLC-generated behaviours replayed "
                          "against the real store; recorded traces validated by TLC (ApiTrace)")

CHECKS = {
    "C01": _api("NomtApi is model-checked (values, root, durable image, rollback log as separate variables); every "
                "observation of the real store (direct reads, session reads, never-written probe keys, value bytes of "
                "all size classes) after every step of TLC-generated histories must equal the specification state.",
                "DESIGN.md 4/C01"),
    "C02": _api("Invariant RootCanonical (root = values) is model-checked as a consequence of the previous-root protocol; "
                "on traces the store's root, every finished session's root and every session's previous root must equal "
                "the independent reference trie root of the read-back content, and distinct maps must have distinct roots.",
                "DESIGN.md 4/C02"),
    "C09": _api("Invariant LogMatchesHist: every retained delta prefix restores exactly the ghost pre-state, with the "
                "code's traceback order and one-sync pruning lag modelled; traces with log lengths 1-3 and kilobyte "
                "segment sizes (roll-over, pruning) must follow Rollback / RollbackRefused exactly." +
                _SEG % "",
                "DESIGN.md 4/C09, 11"),
    "C10": _api("Invariants ReopenTransparent / AvailRetained / DurableIsVisible; traces with Close;Reopen under changed "
                "store options at every position, plus twin runs without the reopen, must be accepted.",
                "DESIGN.md 4/C10"),
    "C11": _api("Overlay forest with chain verdicts (LiveOverlay::new transcribed), marker protocol and OverlayEquivalence "
                "model-checked; traces over overlay trees (forks, dropped/committed ancestors) must be accepted.",
                "DESIGN.md 4/C11"),
    "C12": _api("Action property RejectedIsNoOp over all state incl. rollback log, marker and durable image; every "
                "behaviour with a rejected/deferred attempt is replayed together with its twin in which the attempt "
                "never happened - both must be accepted by the same specification.",
                "DESIGN.md 4/C12"),
}

_TRIE_NOTE = ("Trusted: TLC; the term evaluator (harness/src/term.rs: terms -> hashes with the store's hasher), itself checked "
              "against Trie!Root on every case; symbolic-hash assumption (collision resistance, domain separation).  "
              "Exhaustive at design level for all maps over 3-bit keys; the real prover/verifiers are exercised on those "
              "maps (and sampled 4-bit maps) embedded at the top of the key space under short prefixes.")

def _trie(level, text, ref):
    return dict(level=level, engine="tlc", design_ref=ref, note=_TRIE_NOTE, text=text,
                technique="TLA+ specification Trie (symbolic hashes) model-checked over all small maps with TLC; every real "
                          "prover/verifier call recorded by the harness is evaluated by TLC against the transcription (TrieTrace)")

CHECKS.update({
    "C05": _trie("model_checking", "Completeness is an invariant of MC_Trie over all maps; for TLC-exported maps a real store is "
                 "built (committed / overlay chain / reopened) and the real prover's proof of every key of the universe is "
                 "lifted to terms and must verify and confirm exactly as Trie!VerifyPath / Confirm* say; API traces add "
                 "proofs through deep embeddings, elided pages and overlays (proofsOk constrained by ApiTrace).", "DESIGN.md 4/C05"),
    "C06": _api("Every Finish of a witnessed session in the API traces carries witnessOk (the stateless verification of "
                "examples/witness_verification done by the harness: paths verify against the previous root, reads attest "
                "what the session read, all writes covered, verify_update yields the session's root); ApiTrace requires it "
                "in every state; verify_update itself is judged record by record in TrieTrace (UpdatePre, ApplyOps).", "DESIGN.md 4/C06"),
    "C07": _trie("model_checking", "For TLC-exported maps the harness aggregates real path proofs over random terminal subsets; TLC "
                 "requires the aggregate to verify, every value / non-existence query (with and without index) to be answered as "
                 "the map says, and multi- and per-path update verification to return the root of ApplyOps(kv, W).", "DESIGN.md 4/C07"),
    "C08": _trie("model_checking", "Soundness under the single-mutation grammar is an invariant of MC_Trie over all maps; the same "
                 "grammar (plus splices and multi-proof mutations) is run through the real verifiers and TLC checks both exact "
                 "agreement with the transcription and that every confirmed statement is true of the map.", "DESIGN.md 4/C08"),
    "C18": _trie("exploration", "Every adversarial object of the C08 grammar plus structural malformations of MultiProof (depths, "
                 "dropped/duplicated/reordered paths, truncated/extended sibling lists, foreign terminals) and malformed update "
                 "batches is run through the real verifiers under catch_unwind; TLC rejects any record whose verdict is a panic.",
                 "DESIGN.md 4/C18"),
})

_SYNC_NOTE = ("Trusted: TLC; the hook sites cover every mutating file operation (H-io); the shadow disk (harness/src/shadow.rs) "
              "rebuilds both views of every file from the recorded events; the kernel/device honour fsync; torn 4 KiB pages and "
              "lost unlinks are outside the fault model.  The design-level model is exhaustive for its small constants (all crash "
              "points, all loss subsets, nested crashes); the real store is exercised on every event boundary of the recorded "
              "operations of TLC-generated histories, with sampled loss subsets.")

def _sync(level, text, ref, tech):
    return dict(level=level, engine="tlc", design_ref=ref, note=_SYNC_NOTE, text=text, technique=tech)

CHECKS.update({
    "C03": _sync("fault_enumeration", "NomtSync!OldOrNew is model-checked with process crashes at every step incl. crashes of "
                 "the recovery itself; for every commit / overlay commit / rollback / reopen of TLC-generated histories the I/O events "
                 "are recorded, the directory image of EVERY event boundary (in-flight operations applied or not, singly toggled) is "
                 "materialised, reopened with the real store - whose recovery is recorded and interrupted again - and the observation "
                 "(values, root vs reference, proofs, seqn, one further commit) must be NomtApi's state before or after the call, "
                 "the latter once the call has returned (ApiTrace!TrImage)." + _SEG % ", including the recorded recovery of the crash "
                 "image at every event boundary,", "DESIGN.md 4/C03, 11",
                 "TLA+ NomtSync and Seglog model-checked with TLC (all crash points, nested); crash-point enumeration of recorded I/O "
                 "traces of the real store with reopened images validated by TLC against NomtApi (ApiTrace) and recoveries validated "
                 "against Seglog (SeglogTrace)"),
    "C04": _sync("model_checking", "NomtSync!OldOrNew / DurableOldOrNew / NoTornLog hold for every power-loss choice (any subset of "
                 "unsynced page writes, lost resizes/appends/directory entries, torn log) at every step incl. during recovery, and "
                 "each ordering guard is shown load-bearing by a mutant configuration; recorded event streams of the real store are "
                 "validated by TLC against the same guards (SyncTrace: wal/ln/bbn/segments clean and directory synced before the meta "
                 "write, hash table clean before the WAL is truncated, meta durable and hash table clean in recovery); power-loss "
                 "images (also after a crashed process was recovered) are reopened and judged like C03's; the histories include groups of "
                 "keys that cross the page-elision threshold (a page stored for the first time with nodes the commit did not touch, "
                 "whose WAL entry matters only when the hash-table writes are lost).", "DESIGN.md 4/C04, 11",
                 "TLA+ NomtSync model-checked with TLC incl. guard mutants; recorded I/O event streams validated by TLC (SyncTrace); "
                 "synthesised power-loss images reopened and validated by TLC against NomtApi"),
    "C14": _sync("fault_enumeration", "NomtSync!IoFail / FailureIsReported and NomtApi!CommitFails / PoisonedIsFrozen are model-checked; "
                 "for sampled (operation, k) pairs the k-th mutating I/O operation of a commit / rollback of the real store is failed "
                 "(EIO / ENOSPC, once or persistently): the call must return an error, the handle must report itself poisoned and "
                 "refuse the next commit, and the reopened directory must be NomtApi's old or new state (ApiTrace!TrFault).",
                 "DESIGN.md 4/C14",
                 "TLA+ NomtSync/NomtApi model-checked with TLC; I/O fault injection into the real store at every recorded operation "
                 "index with outcomes validated by TLC (ApiTrace)"),
    "C17": _sync("model_checking", "NomtSync!NoOverwriteOfOld is model-checked (and violated by the mutants that drop the cow / "
                 "ht-after-meta / prune-after-meta guards); every page write, resize and unlink recorded from the real store across "
                 "store configurations is validated by TLC (SyncTrace) against the pre-image decoded from meta and the free lists: "
                 "before the meta page is durable ln/bbn writes only hit free or beyond-bump pages, the hash table is untouched, no "
                 "rollback segment is unlinked (a page re-emitted with the bytes it already holds is not a modification); the store's own free "
                 "list is not trusted to say what is writable: a page reachable from the old image's trees (independent decoder) is not, "
                 "and a committed call that took a page from the old list must leave a rewritten list (list-rewritten, the trace form of "
                 "FreeList!HeadMovesWhenTaken)." + _SEG % "" +
                 " The free list of the value files is transcribed in FreeList.tla and model-checked (CopyOnWrite, NoWriteToLiveOrFreed; "
                 "HeadMovesWhenTaken; mutants), and a sweep of free-list shapes (several full pages under a nearly empty head, thousands of "
                 "pages released at once; trees emptied and refilled across a reopen) is part of the recorded histories.", "DESIGN.md 4/C17, 11",
                 "TLA+ NomtSync and Seglog model-checked with TLC incl. guard mutants; recorded I/O event streams of the real store "
                 "validated by TLC against the decoded pre-image (SyncTrace) and against Seglog (SeglogTrace)"),
})

CHECKS.update({
    "C13": dict(level="exploration", engine="tlc", design_ref="DESIGN.md 4/C13, 11", note=_API_NOTE + "  Thread interleavings of the "
                "store's internal worker pools are whatever the configurations induce; they are sampled, not enumerated.",
                text="NomtApi has no configuration parameter: by construction its results cannot depend on one.  Every TLC-generated "
                     "behaviour is replayed under each point of a configuration matrix (commit workers 1..64, warm-up, cache sizes "
                     "down to the minimum, I/O workers, table sizes, upper-level caching 0..3, pre-population; both hashers across "
                     "runs) with the same concretisation; all runs must be accepted by ApiTrace for the same behaviour - identical "
                     "values, roots (vs the reference trie), proof validity and witness verdicts.",
                technique="TLA+ NomtApi model-checked with TLC; the same TLC-generated behaviours replayed under a configuration matrix "
                          "and validated by TLC (ApiTrace)"),
    "C15": dict(level="model_checking", engine="tlc", design_ref="DESIGN.md 4/C15, 11", note=_API_NOTE + "  Lock-level model exhaustive "
                "for 2 threads x 4 calls and 3 threads x 2 calls; real schedules are sampled with seeded yield points.",
                text="NomtConc (write-preferring access lock, root compare-and-swap under the exclusive lock, rollback worker pool) is "
                     "model-checked incl. TLC's deadlock check: SnapshotReads, Exclusion, WritersSerialize, NoLostCommit; mutants that drop "
                     "reader/writer exclusion or the root check produce counterexamples.  Seeded multi-threaded runs of the real store "
                     "(2-6 threads; sessions, reads, blocking / non-blocking commits, rollbacks) are logged at linearisation points taken "
                     "inside the store while the access lock is held; sorted by them the log must be a NomtApi behaviour (ApiTrace): every "
                     "session view, every outcome, every finished root / witness and the final state.  A hang is a violation.",
                technique="TLA+ NomtConc model-checked with TLC (incl. deadlock); linearised concurrent traces of the real store validated "
                          "by TLC against NomtApi (ApiTrace)"),
    "C16": dict(level="model_checking", engine="tlc", design_ref="DESIGN.md 4/C16, 11", note=_API_NOTE + "  The decoder "
                "(harness/src/decode.rs) is written from the format code only and is validated by its own self-test (nvh decode --selftest).",
                text="Alloc!Partition and Bitbox!ReachableOnce are model-checked; at every quiescent point of TLC-generated histories "
                     "(also with hash tables barely larger than the page set) an independent decoder parses meta, free lists, branch and "
                     "leaf nodes, overflow chains and the hash table and checks key order, separator bounds, single use of every page, "
                     "probe reachability, every stored merkle node against the reference trie and elision consistency; ApiTrace requires "
                     "the decoded map to equal the specification state and the structure to be well-formed in every state.  The histories "
                     "include wide trees (thousands of leaves under several branch nodes, commits by 2-4 workers that erase key ranges "
                     "next to ranges they rewrite) and, in the crash leg, recovered images of groups crossing the elision threshold.  "
                     "Aba.tla states finding F24 at design level (counterexample under the by-value check, none under an epoch check).",
                technique="TLA+ Alloc/Bitbox/NomtApi model-checked with TLC; independent on-disk decoder observations validated by TLC in "
                          "every trace state (ApiTrace)"),
    "C19": dict(level="model_checking", engine="tlc", design_ref="DESIGN.md 4/C19, 11", note=_API_NOTE,
                text="Alloc (copy-on-write page accounting with free-list pages) is model-checked: Partition and the Step relation; "
                     "Bitbox!OccupancyTruthful is model-checked.  On traces with overflow-heavy and mixed-size value tables the decoder's "
                     "snapshots must show no leaked page and a truthful occupancy in every state (ApiTrace), and consecutive snapshots "
                     "of ln and bbn must be related by Alloc!Step (AllocTrace).  The free list itself is transcribed (FreeList.tla: "
                     "Conservation, ListWellFormed, DiskMatchesMemory model-checked) and used as a prediction: from one snapshot and the "
                     "pages that became / stopped being live, FreeList!Finish must give exactly the next snapshot's list, also for lists "
                     "of several pages (FreeListTrace).  The occupancy reported by a process that recovered a crash image must equal the "
                     "bucket count of the recovered files.",
                technique="TLA+ Alloc/Bitbox/FreeList model-checked with TLC; decoder snapshots validated by TLC as Alloc!Step transitions "
                          "(AllocTrace), as predictions of FreeList!Finish (FreeListTrace) and in every trace state (ApiTrace)"),
    "C20": dict(level="model_checking", engine="tlc", design_ref="DESIGN.md 4/C20, 11", note="Trusted: TLC; flock semantics of the "
                "kernel on a local filesystem; directory content hashes taken before/after a refused attempt; H-io events of a closing "
                "handle recorded after its unlock event count as late I/O.",
                text="The Opener part of NomtConc (open / refused open / background writers / drain / unlock / kill) is model-checked: "
                     "AtMostOneHandle, NobodyWritesUnlocked; the mutant that unlocks before draining produces a counterexample.  Scenarios "
                     "with racing threads and child processes (refused while a handle lives, directory unchanged; free after drop, after a "
                     "failed commit, after SIGKILL of a committing holder; no I/O after unlock) are logged and validated by LockTrace.",
                technique="TLA+ NomtConc model-checked with TLC; multi-thread / multi-process lock scenarios of the real store validated "
                          "by TLC (LockTrace)"),
})

_PENDING = "check under construction in this round; not claimed yet"
NOT_APPLICABLE = {p: _PENDING for p in
                  []}
