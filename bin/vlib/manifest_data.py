"""What MANIFEST.json says about each claimed property."""

HOOK_COMMITS = ["34ba92b"]

ENGINES = [
    dict(name="tlc", path="/usr/local/bin/tlc", kind_free_text="TLC 1.8.0 explicit-state model checker: exhaustive checking of the specifications in /verif/spec, simulation-mode behaviour generation, trace validation",
         serves_properties=["C01", "C02", "C09", "C10", "C11", "C12"]),
    dict(name="nvh", path="/verif/harness", kind_free_text="Rust conformance harness (path dependency on /repo, built with --cfg nomt_verif): replays TLC behaviours against the real store and records observation traces",
         serves_properties=["C01", "C02", "C09", "C10", "C11", "C12"]),
]

NOTES = ("Technique: model-based verification with explicit TLA+ specifications (/verif/spec), checked with TLC and bound "
         "to the implementation in both directions (TLC-generated behaviours replayed in the real store; recorded "
         "observation traces validated by TLC against the same specification).  See DESIGN.md.  Hook call sites are "
         "add-only #[cfg(nomt_verif)] statements; the one unguarded added line is `#![allow(unexpected_cfgs)]` in "
         "nomt/src/lib.rs so that guard-off builds stay warning free.")

_API_NOTE = ("Trusted: TLC; the harness' value/byte classification and reference trie root (harness/src/refmodel.rs, "
             "written from docs/nomt_specification.md); collision resistance of blake3/sha2.  Exhaustive only for the "
             "small constants of the design-level configuration; the real store is driven through TLC-simulated "
             "behaviours under sampled concretisations (key embeddings, group sizes, value size classes, store options).")

def _api(text, ref):
    return dict(level="model_checking", engine="tlc", design_ref=ref, note=_API_NOTE, text=text,
                technique="TLA+ specification NomtApi checked exhaustively with TLC; TLC-generated behaviours replayed "
                          "against the real store; recorded traces validated by TLC (ApiTrace)")

CHECKS = {
    "C01": _api("NomtApi is model-checked (values, root, durable image, rollback log as separate variables); every "
                "observation of the real store (direct reads, session reads, never-written probe keys, value bytes of "
                "all size classes) after every step of TLC-generated histories must equal the specification state.",
                "DESIGN.md 4/C01"),
    "C02": _api("Invariant RootCanonical (root = values) is model-checked as a consequence of the previous-root protocol; "
                "on traces the store's root, every finished session's root and every session's previous root must equal "
                "the independent reference trie root of the read-back content, and distinct maps must have distinct roots.",
                "DESIGN.md 4/C02"),
    "C09": _api("Invariant LogMatchesHist: every retained delta prefix restores exactly the ghost pre-state, with the "
                "code's traceback order and one-sync pruning lag modelled; traces with log lengths 1-3 and kilobyte "
                "segment sizes (roll-over, pruning) must follow Rollback / RollbackRefused exactly.",
                "DESIGN.md 4/C09"),
    "C10": _api("Invariants ReopenTransparent / AvailRetained / DurableIsVisible; traces with Close;Reopen under changed "
                "store options at every position, plus twin runs without the reopen, must be accepted.",
                "DESIGN.md 4/C10"),
    "C11": _api("Overlay forest with chain verdicts (LiveOverlay::new transcribed), marker protocol and OverlayEquivalence "
                "model-checked; traces over overlay trees (forks, dropped/committed ancestors) must be accepted.",
                "DESIGN.md 4/C11"),
    "C12": _api("Action property RejectedIsNoOp over all state incl. rollback log, marker and durable image; every "
                "behaviour with a rejected/deferred attempt is replayed together with its twin in which the attempt "
                "never happened - both must be accepted by the same specification.",
                "DESIGN.md 4/C12"),
}

_PENDING = "check under construction in this round; not claimed yet"
NOT_APPLICABLE = {p: _PENDING for p in
                  ["C03", "C04", "C05", "C06", "C07", "C08", "C13", "C14", "C15", "C16", "C17", "C18", "C19", "C20"]}
