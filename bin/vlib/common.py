"""Shared plumbing for the vcheck orchestrator: paths, TLC invocation, harness build, evidence."""
import json, os, re, subprocess, sys, time, hashlib, shutil

VERIF = os.path.dirname(os.path.dirname(os.path.dirname(os.path.abspath(__file__))))
SPEC = os.path.join(VERIF, "spec")
HARNESS = os.path.join(VERIF, "harness")
NVH = os.path.join(HARNESS, "target", "release", "nvh")
OUT = os.path.join(VERIF, "out")
EVID = os.path.join(VERIF, "evidence")
SCRATCH_ROOT = "/var/tmp"
TLC_JAR_CP = "/opt/veriftools/tla/tla2tools.jar:/opt/veriftools/tla/CommunityModules-deps.jar"

TOOL_ERROR = 2


class ToolError(Exception):
    pass


def log(*a):
    print(*a, flush=True)


def ensure_dirs():
    for d in (OUT, EVID):
        os.makedirs(d, exist_ok=True)


def scratch_dir(tag):
    d = os.path.join(SCRATCH_ROOT, "nomt-verif-%s-%d" % (tag, os.getpid()))
    shutil.rmtree(d, ignore_errors=True)
    os.makedirs(d)
    return d


def build_harness():
    """Rebuild the harness against /repo's current working tree (hooks on via .cargo/config.toml)."""
    t0 = time.time()
    env = dict(os.environ)
    env["CARGO_NET_OFFLINE"] = "true"
    lock = None
    if not os.environ.get("VERIF_REPO_LOCK_HELD"):
        # bin/seedtest holds this lock while a seeded change is applied to /repo: never build from such a tree
        try:
            import fcntl
            lock = open(os.path.join(SCRATCH_ROOT, "nomt-verif-repo.lock"), "w")
            fcntl.flock(lock, fcntl.LOCK_EX)
        except OSError:
            lock = None
    p = subprocess.run(["cargo", "build", "--release", "--offline"], cwd=HARNESS, env=env,
                       stdout=subprocess.PIPE, stderr=subprocess.STDOUT, text=True)
    if p.returncode == 0:
        # run from a private copy: a later rebuild (another check, bin/seedtest) must not replace the binary under a
        # check that is still running
        global NVH
        import atexit
        private = os.path.join(SCRATCH_ROOT, "nomt-verif-nvh-%d" % os.getpid())
        try:
            shutil.copy2(os.path.join(HARNESS, "target", "release", "nvh"), private)
            NVH = private
            atexit.register(lambda: os.path.exists(private) and os.remove(private))
        except OSError:
            pass
    if lock:
        lock.close()
    if p.returncode != 0:
        log(p.stdout[-6000:])
        raise ToolError("harness build failed (cargo exit %d)" % p.returncode)
    return time.time() - t0


def workers(default=12):
    try:
        return max(1, min(default, (os.cpu_count() or 4) - 2))
    except Exception:
        return 4


def write_cfg(path, spec, constants, invariants=(), properties=(), constraints=(), postcondition=None,
              view=None, init_next=None):
    lines = []
    if init_next:
        lines.append("INIT %s" % init_next[0])
        lines.append("NEXT %s" % init_next[1])
    else:
        lines.append("SPECIFICATION %s" % spec)
    lines.append("CONSTANTS")
    for k, v in constants.items():
        lines.append("  %s = %s" % (k, tla_value(v)))
    for c in constraints:
        lines.append("CONSTRAINT %s" % c)
    if invariants:
        lines.append("INVARIANTS " + " ".join(invariants))
    if properties:
        lines.append("PROPERTIES " + " ".join(properties))
    if postcondition:
        lines.append("POSTCONDITION %s" % postcondition)
    if view:
        lines.append("VIEW %s" % view)
    lines.append("CHECK_DEADLOCK FALSE")
    with open(path, "w") as f:
        f.write("\n".join(lines) + "\n")


def tla_value(v):
    if isinstance(v, bool):
        return "TRUE" if v else "FALSE"
    if isinstance(v, int):
        return str(v)
    if isinstance(v, str):
        return v  # already TLA syntax (e.g. a model value or a quoted string)
    if isinstance(v, (set, frozenset, list, tuple)):
        return "{" + ", ".join('"%s"' % x if isinstance(x, str) else str(x) for x in sorted(v)) + "}"
    raise ValueError(v)


def run_tlc(module, cfg, *, mode_args=(), nworkers=None, timeout=1800, env_extra=None, tag="tlc",
            java_opts=None, heap=None):
    """Run TLC; return (exit_code, output).  cwd is the spec directory."""
    meta = os.path.join(SCRATCH_ROOT, "nomt-verif-tlcmeta-%s-%d-%d" % (tag, os.getpid(), int(time.time() * 1000) % 100000))
    cmd = ["timeout", str(timeout), "java", "-XX:+UseParallelGC"]
    if heap:
        cmd.append("-Xmx%s" % heap)
    cmd += ["-cp", TLC_JAR_CP, "tlc2.TLC",
            "-workers", str(nworkers or workers()), "-metadir", meta, "-cleanup", "-noGenerateSpecTE", "-checkpoint", "0",
            "-config", cfg] + list(mode_args) + [module]
    env = dict(os.environ)
    if java_opts:
        env["JAVA_TOOL_OPTIONS"] = java_opts
    if env_extra:
        env.update(env_extra)
    p = subprocess.run(cmd, cwd=SPEC, env=env, stdout=subprocess.PIPE, stderr=subprocess.STDOUT, text=True,
                       errors="replace")
    shutil.rmtree(meta, ignore_errors=True)
    return p.returncode, p.stdout


_GEN = re.compile(r"(\d[\d,]*) states generated, (\d[\d,]*) distinct states found")


def tlc_stats(output):
    m = None
    for m in _GEN.finditer(output):
        pass
    if not m:
        return 0, 0
    return int(m.group(2).replace(",", "")), int(m.group(1).replace(",", ""))


def model_check(module, cfg, tag, timeout=1800, nworkers=None):
    """Exhaustive TLC run.  Returns dict(states, transitions, ok, output, wall)."""
    t0 = time.time()
    rc, out = run_tlc(module, cfg, tag=tag, timeout=timeout, nworkers=nworkers, mode_args=("-coverage", "1"))
    states, gen = tlc_stats(out)
    ok = rc == 0 and "Model checking completed. No error has been found." in out
    if rc == 124:
        raise ToolError("TLC timed out on %s" % cfg)
    return dict(states=states, transitions=gen, ok=ok, output=out, wall=time.time() - t0, rc=rc)


def untla_string(s):
    """Undo TLA+ string escaping as printed by TLC (\\\" and \\\\)."""
    out = []
    i = 0
    while i < len(s):
        c = s[i]
        if c == "\\" and i + 1 < len(s):
            n = s[i + 1]
            if n in ('"', "\\"):
                out.append(n)
                i += 2
                continue
            if n == "n":
                out.append("\n"); i += 2; continue
            if n == "t":
                out.append("\t"); i += 2; continue
        out.append(c)
        i += 1
    return "".join(out)


_BEH = re.compile(r'^<<"BEH", "(.*)">>\s*$')


def parse_printed_json(output, tag="BEH"):
    res = []
    rx = re.compile(r'^<<"%s", "(.*)">>\s*$' % tag)
    for line in output.splitlines():
        m = rx.match(line)
        if m:
            try:
                res.append(json.loads(untla_string(m.group(1))))
            except Exception:
                pass
    return res


def validate_trace(trace_path, cfg_path, module="ApiTrace.tla", tag="trace", timeout=900, stop=None):
    """Trace validation. Returns dict(accepted, records, rejected_at, rejected_record, output)."""
    env = {"TRACE": trace_path}
    if stop is not None:
        env["STOP"] = str(stop)
    rc, out = run_tlc(module, cfg_path, tag=tag, timeout=timeout, nworkers=1, env_extra=env, heap="4g",
                      java_opts="-Xss1g -Dtlc2.tool.queue.IStateQueue=StateDeque")
    acc = re.search(r'<<"TRACE-ACCEPTED", (\d+)>>', out)
    rej = re.search(r'<<"TRACE-REJECTED", (\d+), "(.*)">>', out)
    if acc and rc == 0:
        return dict(accepted=True, records=int(acc.group(1)), output=out)
    if rej:
        rec = None
        try:
            rec = json.loads(untla_string(rej.group(2)))
        except Exception:
            rec = rej.group(2)
        return dict(accepted=False, rejected_at=int(rej.group(1)), rejected_record=rec, output=out)
    if rc == 124:
        raise ToolError("trace validation timed out")
    raise ToolError("trace validation produced no verdict (rc=%d):\n%s" % (rc, out[-3000:]))


def sha(obj):
    return hashlib.sha256(json.dumps(obj, sort_keys=True).encode()).hexdigest()[:16]


def write_evidence(pid, tier, seed, level, coverage, wall, assumptions, violations=0):
    ensure_dirs()
    ev = dict(property_id=pid, tier=tier, seed=seed, level=level, coverage=coverage,
              assumptions=assumptions, wall_s=round(wall, 2), violations=violations)
    path = os.path.join(EVID, "%s.json" % pid)
    with open(path, "w") as f:
        json.dump(ev, f, indent=1, sort_keys=True)
    return path


def load_known_findings():
    p = os.path.join(VERIF, "KNOWN_FINDINGS.json")
    if not os.path.exists(p):
        return []
    with open(p) as f:
        return json.load(f).get("findings", [])


def write_replay(pid, name, payload):
    ensure_dirs()
    d = os.path.join(OUT, "replays")
    os.makedirs(d, exist_ok=True)
    path = os.path.join(d, "%s-%s.json" % (pid, name))
    with open(path, "w") as f:
        json.dump(payload, f, indent=1)
    return path


def take_panics(runs):
    """Remove the {"ev": "Panic"} records (a panic of the store outside a guarded API call, e.g. while a handle is
    dropped) from the per-run record lists and return them: they are outcomes the caller reports as violations."""
    out = []
    for r in list(runs):
        keep = []
        for rec in runs[r]:
            if rec.get("ev") == "Panic":
                out.append(rec)
            else:
                keep.append(rec)
        runs[r] = keep
    return out


def panic_violations(pid, runs, script_by_run, violations):
    for rec in take_panics(runs):
        sc = script_by_run.get(rec.get("run"))
        p = write_replay(pid, "panic-run%s" % rec.get("run"), dict(kind="panic", property=pid, script=sc, record=rec))
        violations.append(dict(prop=pid, replay=p, what="the store panicked outside an API call (%s) during: %s"
                                                        % (str(rec.get("msg"))[:200], str(rec.get("during"))[:120])))


def hang_payload(what, script_by_run):
    """replay payload of a call that did not return: the script of the run named in the watchdog's report"""
    m = re.search(r'run (\d+)', what)
    sc = script_by_run.get(int(m.group(1))) if m else None
    return dict(kind="hang", what=what, script=sc)


class Proc:
    """A harness subprocess whose stdout / stderr go to FILES: with pipes, a process that prints more than the pipe
    holds (panic messages of worker threads with backtraces) blocks until somebody reads - and the sequential
    communicate() of several shards made exactly that look like a call that does not return."""

    def __init__(self, argv, logbase, env=None):
        self.out_path, self.err_path = logbase + ".stdout", logbase + ".stderr"
        self._o, self._e = open(self.out_path, "w"), open(self.err_path, "w")
        self.p = subprocess.Popen(argv, stdout=self._o, stderr=self._e, env=env)

    def communicate(self, timeout=None):
        try:
            self.p.wait(timeout=timeout)
        finally:
            self._o.close()
            self._e.close()
        return self._read(self.out_path), self._read(self.err_path)

    @staticmethod
    def _read(path, limit=200000):
        try:
            with open(path, "rb") as f:
                f.seek(0, 2)
                n = f.tell()
                f.seek(max(0, n - limit))
                return f.read().decode("utf-8", "replace")
        except OSError:
            return ""

    def kill(self):
        self.p.kill()

    @property
    def returncode(self):
        return self.p.returncode
