"""Seglog.tla: the rollback segment log (design level: TLC with a process crash at every file operation, recovery
included) and SeglogTrace.tla (code -> spec: the recorded file-system events of the real store's rollback log, the
recorded recoveries of its crash images included, must be a behaviour of Seglog)."""
import json, os, re, time

from . import common as C

INVS = ["TypeOK", "NeverFails", "RingIsTruth", "NoStaleRecord", "NoGap", "MemMatchesDisk"]

MC_CONFIGS = {
    "quick": [dict(Cap=1, Sizes={1}, MaxLen=2, MaxRec=4, MaxSeg=5, MaxVer=5, MaxCrash=2),
              dict(Cap=3, Sizes={1, 2}, MaxLen=2, MaxRec=5, MaxSeg=5, MaxVer=5, MaxCrash=2),
              dict(Cap=1, Sizes={1}, MaxLen=3, MaxRec=5, MaxSeg=6, MaxVer=5, MaxCrash=3)],
    "thorough": [dict(Cap=1, Sizes={1}, MaxLen=1, MaxRec=5, MaxSeg=7, MaxVer=7, MaxCrash=3),
                 dict(Cap=1, Sizes={1}, MaxLen=3, MaxRec=6, MaxSeg=7, MaxVer=7, MaxCrash=3),
                 dict(Cap=2, Sizes={1, 2}, MaxLen=3, MaxRec=5, MaxSeg=6, MaxVer=6, MaxCrash=3),
                 dict(Cap=3, Sizes={1, 2}, MaxLen=2, MaxRec=6, MaxSeg=5, MaxVer=7, MaxCrash=3),
                 dict(Cap=4, Sizes={1, 3}, MaxLen=2, MaxRec=6, MaxSeg=5, MaxVer=7, MaxCrash=2)],
}
# guards whose removal must give a counterexample (configuration that exhibits it)
MUTANTS = {
    "desc-unlink": dict(Cap=1, Sizes={1}, MaxLen=3, MaxRec=4, MaxSeg=5, MaxVer=4, MaxCrash=2),
    "meta-before-prune": dict(Cap=1, Sizes={1}, MaxLen=2, MaxRec=4, MaxSeg=5, MaxVer=4, MaxCrash=1),
}


def mc_seglog(tag, consts, drop=(), timeout=1500):
    cfg = os.path.join(C.OUT, "Seglog_%s.cfg" % tag)
    cc = dict(consts)
    cc["Drop"] = set(drop)
    C.write_cfg(cfg, "Spec", cc, invariants=INVS)
    t0 = time.time()
    rc, out = C.run_tlc("Seglog.tla", cfg, tag="seglog" + tag, timeout=timeout, nworkers=min(8, C.workers()))
    if rc == 124:
        raise C.ToolError("TLC timed out on Seglog %s" % tag)
    states, gen = C.tlc_stats(out)
    ok = rc == 0 and "No error has been found" in out
    violated = re.findall(r"Invariant (\w+) is violated", out)
    if not ok and not violated:
        raise C.ToolError("Seglog %s: TLC failed without a counterexample:\n%s" % (tag, out[-2000:]))
    return dict(states=states, transitions=gen, ok=ok, violated=violated, wall=time.time() - t0, consts=consts, drop=list(drop))


def design_level(pid, tier):
    """Model-check Seglog; every guard mutant must have a counterexample.  Returns (states, transitions, mcs, problems)."""
    states = trans = 0
    mcs, problems = [], []
    for i, consts in enumerate(MC_CONFIGS[tier]):
        r = mc_seglog("%s_%d" % (pid, i), consts)
        C.log("[%s] TLC Seglog %s: %d states, ok=%s (%.0fs)" % (pid, _short(consts), r["states"], r["ok"], r["wall"]))
        states += r["states"]
        trans += r["transitions"]
        mcs.append(dict(config="Seglog " + _short(consts), states=r["states"], ok=r["ok"]))
        if not r["ok"]:
            problems.append("Seglog %s violates %s" % (_short(consts), r["violated"]))
    for g, consts in MUTANTS.items():
        r = mc_seglog("%s_mut_%s" % (pid, g.replace("-", "")), consts, drop=(g,))
        mcs.append(dict(config="Seglog without guard %s" % g, states=r["states"], ok=r["ok"], expect_violation=True))
        if r["ok"]:
            problems.append("Seglog without guard '%s' has no counterexample (vacuous guard)" % g)
    return states, trans, mcs, problems


def _short(c):
    return "Cap=%s Sizes=%s MaxLen=%s MaxRec=%s MaxVer=%s MaxCrash=%s" % (c["Cap"], sorted(c["Sizes"]), c["MaxLen"], c["MaxRec"],
                                                                        c["MaxVer"], c["MaxCrash"])


# ----------------------------------------------------------------------------------------------------------------
# code -> spec
# ----------------------------------------------------------------------------------------------------------------
class _Conv:
    """Converts raw H-io events of rollback.N.log / meta into SeglogTrace records.  Effects count at the END event of
    an operation (as in the shadow disk); the data of an operation is on its BEGIN event."""

    def __init__(self, fsize=None):
        self.fsize = dict(fsize or {})      # segment -> size in bytes as of the last applied resize
        self.open = {}                      # (file, kind) -> begin event
        self.payload = set()                # segments whose last applied append was a payload

    def clone(self):
        c = _Conv(self.fsize)
        c.payload = set(self.payload)
        return c

    def feed(self, e):
        """returns a list of trace records for this raw event"""
        f, k, ph = e.get("f", ""), e.get("k"), e.get("ph")
        is_seg = "seg" in e
        if not (is_seg or (f == "meta" and k == "write")):
            return []
        if ph == "begin":
            self.open[(f, k)] = e
            return []
        b = self.open.pop((f, k), None)
        if b is None or not e.get("ok", True):
            return []
        if f == "meta":
            if "rs" not in b:
                return []
            return [dict(k="meta", s=b["rs"], e=b["re"])]
        seg = e["seg"]
        if k == "create":
            self.fsize[seg] = 0
            self.payload.discard(seg)
            return [dict(k="create", seg=seg)]
        if k == "unlink":
            self.fsize.pop(seg, None)
            self.payload.discard(seg)
            return [dict(k="unlink", seg=seg)]
        if k == "append":
            if "rid" in b:
                self.payload.discard(seg)
                return [dict(k="hdr", seg=seg, rid=b["rid"])]
            self.payload.add(seg)
            return []
        if k == "setlen":
            new = b["len"]
            if seg in self.payload:
                self.payload.discard(seg)
                old = self.fsize.get(seg, 0)
                self.fsize[seg] = new
                return [dict(k="pay", seg=seg, units=(new - old) // 4096)]
            self.fsize[seg] = new
            return [dict(k="trunc", seg=seg, units=new // 4096)]
        return []


def _sizes_from_pre(pre):
    out = {}
    for n, recs in (pre.get("segs") or {}).items():
        out[int(n)] = sum(r[1] for r in recs) * 4096
    return out


def build_traces(events, scripts, max_streams=None):
    """events: the records of the events files (all runs).  Returns {run: [(trace record, origin)]} for runs with
    rollback enabled; origin = (op index, "op" | "crash")."""
    by_run = {}
    for e in events:
        by_run.setdefault(e.get("run"), []).append(e)
    cfg = {sc["run"]: sc for sc in scripts}
    out = {}
    for run, evs in by_run.items():
        sc = cfg.get(run)
        if sc is None or not sc["cfg"].get("rollback"):
            continue
        # split into groups: (op record, io events)
        groups, cur = [], None
        for e in evs:
            if e["ev"] == "op":
                cur = [e, []]
                groups.append(cur)
            elif e["ev"] == "io" and cur is not None:
                cur[1].append(e)
            elif e["ev"] == "ret":
                cur = None
        # recovery streams recorded for images of an operation follow that operation's group
        tr = [(dict(k="reset"), (-1, "op"))]
        i = 0
        complete = True
        while i < len(groups):
            op, ios = groups[i]
            if "img" in op:
                i += 1
                continue
            streams = {}
            j = i + 1
            while j < len(groups) and "img" in groups[j][0]:
                im = groups[j][0]["img"]
                if im.get("label") == "none" and im["k"] not in streams:
                    streams[im["k"]] = groups[j][1]
                j += 1
            idx = op.get("i")
            a = op.get("op", {}).get("a")
            ok = op.get("res") == "Ok"
            pre = op.get("pre") or {}
            if "segs" not in pre:
                complete = False
                break
            if a != "Reopen":
                tr.append((dict(k="pre", meta=[pre.get("rbStart", 0), pre.get("rbEnd", 0)],
                                segs=[[int(n), recs] for n, recs in sorted(pre["segs"].items(), key=lambda kv: int(kv[0]))]),
                           (idx, "op")))
            rec = dict(k="op", a=a if ok else "Noop")
            if a == "Rollback" and ok:
                rec["n"] = op["op"]["n"]
            tr.append((rec, (idx, "op")))
            conv = _Conv(_sizes_from_pre(pre))
            keys = sorted(streams)
            if max_streams is not None and len(keys) > max_streams:
                step = len(keys) / float(max_streams)
                keys = sorted({keys[int(x * step)] for x in range(max_streams)} | {keys[-1]})
            for pos in range(len(ios) + 1):
                if pos in keys and a != "Reopen":
                    tr.append((dict(k="save"), (idx, "crash")))
                    tr.append((dict(k="crash"), (idx, "crash")))
                    c2 = conv.clone()
                    c2.open = {}
                    c2.payload = set()      # the process died: a resize seen now is the recovery's truncation
                    for e in streams[pos]:
                        for r in c2.feed(e):
                            tr.append((r, (idx, "crash")))
                    tr.append((dict(k="opened", at=pos), (idx, "crash")))
                    tr.append((dict(k="restore"), (idx, "crash")))
                if pos < len(ios):
                    for r in conv.feed(ios[pos]):
                        tr.append((r, (idx, "op")))
            if ok or a == "Reopen":
                tr.append((dict(k="ret"), (idx, "op")))
            else:
                # a refused / failed call: nothing of the rollback log may have happened
                tr.append((dict(k="ret"), (idx, "op")))
            i = j
        if complete:
            out[run] = tr
    return out


def validate(traces, scripts, tag, max_rounds=10):
    """Validate the traces with TLC, grouped by (Cap, MaxLen).  Returns (accepted run ids, rejections) where a
    rejection is dict(run, origin, record, index)."""
    cfg = {sc["run"]: sc for sc in scripts}
    groups = {}
    for run in traces:
        c = cfg[run]["cfg"]
        seg = c.get("segment_size") or 0
        cap = (seg if seg else 64 * 1024 * 1024) // 4096
        groups.setdefault((max(cap, 1), int(c.get("max_rollback_log_len", 1))), []).append(run)
    accepted, rejections = [], []
    tdir = os.path.join(C.OUT, "traces")
    os.makedirs(tdir, exist_ok=True)
    for (cap, maxlen), runs in sorted(groups.items()):
        runs = sorted(runs)
        for rnd in range(max_rounds):
            if not runs:
                break
            flat, origin = [], []
            for r in runs:
                for rec, org in traces[r]:
                    flat.append(rec)
                    origin.append((r, org))
            tp = os.path.join(tdir, "seglog_%s_%d_%d.ndjson" % (tag, cap, maxlen))
            with open(tp, "w") as f:
                for rec in flat:
                    f.write(json.dumps(rec) + "\n")
            cfgp = os.path.join(C.OUT, "SeglogTrace_%s_%d_%d.cfg" % (tag, cap, maxlen))
            C.write_cfg(cfgp, "TraceSpec", dict(Cap=cap, Sizes={1}, MaxLen=maxlen, MaxRec=1000000, MaxSeg=400, MaxVer=1000000,
                                                MaxCrash=1000000, Drop=set()),
                        invariants=INVS, constraints=["Track"], postcondition="TraceAccepted")
            rc, out = C.run_tlc("SeglogTrace.tla", cfgp, tag="seglogtrace" + tag, nworkers=1, timeout=1500, heap="4g",
                                env_extra={"TRACE": tp}, java_opts="-Xss1g -Dtlc2.tool.queue.IStateQueue=StateDeque")
            if '"TRACE-ACCEPTED"' in out:
                accepted.extend(runs)
                os.remove(tp)
                break
            m = re.search(r'<<"TRACE-REJECTED", (\d+), ', out)
            inv = re.findall(r"Invariant (\w+) is violated", out)
            if not m and not inv:
                raise C.ToolError("SeglogTrace did not finish (rc=%s):\n%s" % (rc, out[-3000:]))
            if m:
                d = int(m.group(1))
            else:
                # an invariant of Seglog fails on the observed execution: the state is the one after record l - 1
                ls = re.findall(r"/\\ l = (\d+)", out)
                d = max(1, int(ls[-1]) - 1) if ls else 1
            d = min(max(d, 1), len(flat))
            run, org = origin[d - 1]
            rejections.append(dict(run=run, origin=org, record=flat[d - 1], index=d, invariant=inv[0] if inv else None,
                                   context=flat[max(0, d - 12): d]))
            accepted.extend(r for r in runs if r < run)
            runs = [r for r in runs if r > run]
    return sorted(set(accepted)), rejections


# ----------------------------------------------------------------------------------------------------------------
# the leg run by C03 / C09 / C17 before their main leg
# ----------------------------------------------------------------------------------------------------------------
LEG = {
    "C09": dict(quick=dict(behs=6, depth=22, crash=False), thorough=dict(behs=60, depth=30, crash=False)),
    "C17": dict(quick=dict(behs=6, depth=22, crash=False), thorough=dict(behs=60, depth=30, crash=False)),
    "C03": dict(quick=dict(behs=2, depth=18, crash=True, streams=10, max_ops=3), thorough=dict(behs=30, depth=28, crash=True, streams=None)),
}
# which properties a rejected record belongs to, by where it lies
OWNERS = {"op": {"C09", "C17"}, "crash": {"C03", "C09"}}


def _hand_scripts(rng, api, sync, first_run):
    """Legal NomtApi behaviours that make the log roll over several segments and roll back across them."""
    out = []
    run = first_run
    for maxlog, seg, pattern in [(3, 4096, "c c c r2 c c c c x r1"), (2, 4096, "c c c r1 r1 c x c c r2"), (3, 8192, "c c c c r3 c c x r2 c"),
                                 (1, 4096, "c c r1 c c x c r1"), (3, 0, "c c c r2 c x r2"), (2, 8192, "c c c c c r2 x c r1 c c")]:
        consts = api.gen_constants(maxlog=maxlog)
        keys = sorted(consts["Keys"])
        beh, i = [], 0
        for tok in pattern.split():
            if tok == "c":
                i += 1
                beh += [dict(a="Begin", s=1, chain=[], res="Ok"),
                        dict(a="Finish", s=1, f=1, w={k: (("v1" if i % 2 else "v2") if k == keys[i % len(keys)] else "NoCh") for k in keys}),
                        dict(a=rng.choice(["Commit", "TryCommit"]), f=1, res="Ok")]
            elif tok == "x":
                beh += [dict(a="Close"), dict(a="Reopen")]
            else:
                beh.append(dict(a="Rollback", n=int(tok[1:]), res="Ok"))
        store, conc = api.concretise(beh, consts, rng, f=rng.choice([1, 3]), emb=rng.choice(["top", "scatter", "deep(12)"]),
                                     vt=rng.choice(["tiny", "ovf", "big"]))
        store.update(rollback=True, max_rollback_log_len=maxlog, segment_size=seg)
        run += 1
        out.append(api.make_script(run, beh, store, conc))
    return out


def run_leg(pid, tier, seed):
    """Returns (violations, coverage) - coverage is merged into the evidence of the check's main leg."""
    import random
    from . import api, sync
    plan = LEG[pid][tier]
    rng = random.Random(seed * 104729 + int(pid[1:]))
    t0 = time.time()
    states, trans, mcs, problems = design_level(pid, tier)
    violations = []
    for pr in problems:
        p = C.write_replay(pid, "seglog-design-%d" % len(violations), dict(kind="seglog-design", property=pid, what=pr))
        violations.append(dict(prop=pid, replay=p, what=pr))
    # scripts: TLC-generated histories with rollbacks under small segment sizes + hand-written roll-over histories
    gplan = dict(behs=plan["behs"], depth=plan["depth"], fs=[1, 3], embs=["top", "scatter", "deep(12)", "spread(6)"])
    scripts, _, _ = sync.gen_scripts(pid + "sl", gplan, seed, rng)
    for sc in scripts:
        sc["cfg"]["segment_size"] = rng.choice([4096, 4096, 8192, 0])
    scripts += _hand_scripts(rng, api, sync, max(sc["run"] for sc in scripts))
    for sc in scripts:
        ops = [i for i, s in enumerate(sc["steps"]) if s["a"] in sync.SYNC_OPS]
        if plan["crash"] and plan.get("max_ops") and len(ops) > plan["max_ops"]:
            # quick tier: the rollbacks (pruning of the newest records) and a few other operations
            rb = [i for i in ops if sc["steps"][i]["a"] == "Rollback" and sc["steps"][i].get("res") == "Ok"]
            rest = [i for i in ops if i not in rb]
            ops = sorted(set(rb[-2:]) | set(rng.sample(rest, min(len(rest), max(1, plan["max_ops"] - len(rb[-2:]))))))
        sc["crash_steps"] = ops if plan["crash"] else []
        sc.update(crash_mode="crash" if plan["crash"] else "none", budget=1, nested=0, stride=1, record_all=True, decode=False)
    runs, events, hangs = sync.run_crash(scripts, pid + "sl")
    C.panic_violations(pid, runs, {sc["run"]: sc for sc in scripts}, violations)
    for h in hangs:
        p = C.write_replay(pid, "seglog-hang-%d" % len(violations), C.hang_payload(h, {sc["run"]: sc for sc in scripts}))
        violations.append(dict(prop=pid, replay=p, what="call did not return: " + h[:200]))
    # every call of these histories must end the way NomtApi says (the scripts carry the expected outcome): a store
    # that does not reopen, a rollback that is refused or a commit that fails is a violation by itself
    for sc in scripts:
        for rec in runs.get(sc["run"], []):
            i = rec.get("i")
            if i is None or not (0 <= i < len(sc["steps"])) or rec.get("ev") in ("Image", "reset"):
                continue
            st = sc["steps"][i]
            if st["a"] in sync.SYNC_OPS and st["a"] != "Rollback" and rec.get("ev") == st["a"]:
                want = st.get("res", "Ok")
                got = str(rec.get("res"))
                # (rollback outcomes depend on how much more than promised the log kept across reopens - both ways - and
                # are judged by ApiTrace in the main legs; a commit or a reopen that fails where success is due is
                # judged here)
                if want == "Ok" and got != "Ok":
                    p = C.write_replay(pid, "seglog-outcome-run%d-%d" % (sc["run"], i), dict(kind="crash-image", property=pid, script=sc, record=rec))
                    violations.append(dict(prop=pid, replay=p, what="%s at step %d ended with %s where the specification says %s"
                                                                    % (st["a"], i, got[:160], want)))
                    break
    traces = build_traces(events, scripts, max_streams=plan.get("streams"))
    nrec = sum(len(t) for t in traces.values())
    ncrash = sum(1 for t in traces.values() for r, _ in t if r["k"] == "crash")
    acc, rej = validate(traces, scripts, pid)
    C.log("[%s] SeglogTrace: %d runs, %d records (%d recoveries of crash images), %d accepted, %d rejected"
          % (pid, len(traces), nrec, ncrash, len(acc), len(rej)))
    sby = {sc["run"]: sc for sc in scripts}
    notes = []
    for r in rej:
        owners = OWNERS[r["origin"][1]]
        what = ("the rollback log's file operations are not a behaviour of Seglog: record %s (%s of step %s)%s"
                % (json.dumps(r["record"]), r["origin"][1], r["origin"][0],
                   ", invariant %s" % r["invariant"] if r["invariant"] else ""))
        if pid not in owners:
            notes.append("run %d: %s - attributed to %s" % (r["run"], what, sorted(owners)))
            continue
        p = C.write_replay(pid, "seglog-run%d" % r["run"], dict(kind="seglog-trace", property=pid, script=sby[r["run"]], rejection=r))
        violations.append(dict(prop=pid, replay=p, what=what))
    for n in notes[:10]:
        C.log("NOTE: " + n)
    for v in violations:
        C.log("VIOLATION property=%s replay=%s" % (v["prop"], v["replay"]))
        C.log("  " + v["what"])
    cov = dict(states=states, transitions=trans, traces_validated_against_impl=len(acc), evaluations=nrec,
               distinct_nontrivial=len({json.dumps(r, sort_keys=True) + str(o) + str(run) for run, t in traces.items() for r, o in t}),
               seglog=dict(model_checking=mcs, runs=len(traces), records=nrec, crash_recoveries=ncrash, rejected=len(rej),
                           wall_s=round(time.time() - t0, 1), notes=notes[:10]),
               leg_violations=len(violations))
    return violations, cov
