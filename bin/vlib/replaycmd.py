"""vcheck --replay <file>: re-run one stored case and say whether it still fails."""
import json, os, sys
from . import common as C, api


def main(args):
    if not args:
        print("usage: vcheck --replay <file>")
        return 2
    payload = json.load(open(args[0]))
    kind = payload.get("kind")
    C.ensure_dirs()
    C.build_harness()
    if kind == "api-trace":
        sc = payload["script"]
        runs, hangs = api.replay([sc], "replaycmd")
        consts = api.gen_constants(maxlog=sc["cfg"]["max_rollback_log_len"], rollback=sc["cfg"]["rollback"],
                                   nkeys=len(sc["conc"]["keys"]), nvals=len(sc["conc"]["vals"]))
        if hangs:
            print("VIOLATION property=%s replay=%s" % (payload.get("property"), args[0]))
            return 1
        acc, rej = api.validate_runs(sorted(runs), runs, consts, "replaycmd")
        if rej:
            print(json.dumps(rej[0], indent=1)[:4000])
            print("VIOLATION property=%s replay=%s" % (payload.get("property"), args[0]))
            return 1
        print("replayed case is accepted by the specification now")
        return 0
    if kind == "tlc-counterexample":
        print(payload.get("output", "")[-8000:])
        return 1
    from . import registry
    h = getattr(registry, "REPLAYERS", {}).get(kind)
    if h:
        return h(payload, args[0])
    print("unknown replay kind", kind)
    return 2
