"""vcheck --replay <file>: re-run one stored case and say whether it still fails."""
import json, os, sys
from . import common as C, api


def main(args):
    if not args:
        print("usage: vcheck --replay <file>")
        return 2
    payload = json.load(open(args[0]))
    kind = payload.get("kind")
    C.ensure_dirs()
    C.build_harness()
    if kind == "api-trace":
        sc = payload["script"]
        runs, hangs = api.replay([sc], "replaycmd")
        consts = api.gen_constants(maxlog=sc["cfg"]["max_rollback_log_len"], rollback=sc["cfg"]["rollback"],
                                   nkeys=len(sc["conc"]["keys"]), nvals=len(sc["conc"]["vals"]))
        if hangs:
            print("VIOLATION property=%s replay=%s" % (payload.get("property"), args[0]))
            return 1
        acc, rej = api.validate_runs(sorted(runs), runs, consts, "replaycmd")
        if rej:
            print(json.dumps(rej[0], indent=1)[:4000])
            print("VIOLATION property=%s replay=%s" % (payload.get("property"), args[0]))
            return 1
        print("replayed case is accepted by the specification now")
        return 0
    if kind in ("fault", "crash-image", "panic", "seglog-trace", "hang", "sync-rule") and payload.get("script"):
        from . import sync, seglog
        sc = payload["script"]
        prop = payload.get("property")
        is_crash_script = "crash_mode" in sc or "fault" in sc
        if is_crash_script:
            if sc.get("fault"):
                os.environ["NVH_WATCHDOG"] = "25"
            runs, events, hangs = sync.run_crash([sc], "replaycmd")
        else:
            runs, hangs = api.replay([sc], "replaycmd")
            events = []
        bad = []
        if hangs:
            bad.append("call did not return: %s" % hangs[0][:200])
        for rec in C.take_panics(runs):
            bad.append("store panicked: %s" % str(rec.get("msg"))[:300])
        consts = api.gen_constants(maxlog=sc["cfg"]["max_rollback_log_len"], rollback=sc["cfg"]["rollback"],
                                   nkeys=len(sc["conc"]["keys"]), nvals=len(sc["conc"]["vals"]))
        acc, rej = api.validate_runs(sorted(runs), runs, consts, "replaycmd")
        for r in rej:
            bad.append("record not allowed by the specification: %s" % json.dumps(r["record"])[:600])
        if kind == "sync-rule" and events:
            for rule, idx, rec in sync.validate_events(events, "replaycmd"):
                bad.append("I/O ordering rule '%s' violated by %s" % (rule, json.dumps(rec)[:300]))
        if kind == "seglog-trace" and events:
            tr = seglog.build_traces(events, [sc])
            _, srej = seglog.validate(tr, [sc], "replaycmd")
            for r in srej:
                bad.append("rollback-log operation not allowed by Seglog: %s" % json.dumps(r["record"]))
        if bad:
            for b in bad[:5]:
                print(b)
            print("VIOLATION property=%s replay=%s" % (prop, args[0]))
            return 1
        print("replayed case is accepted by the specification now")
        return 0
    if kind == "tlc-counterexample":
        print(payload.get("output", "")[-8000:])
        return 1
    from . import registry
    h = getattr(registry, "REPLAYERS", {}).get(kind)
    if h:
        return h(payload, args[0])
    print("unknown replay kind", kind)
    return 2
